package isaspec

import (
	"encoding/binary"
	"strings"

	"verifharness/vlib/gcnasm"
)

// SMEM (GCN3 manual chapter 7, 12.5), DS (chapter 10, 12.13), FLAT (chapter
// 9, 12.14; CDNA3: "MI300" ISA chapter 13 FLAT/GLOBAL field tables: SADDR,
// 13-bit signed OFFSET, SEG).

// ---------------------------------------------------------------------------
// SMEM: "m_offset = IMM ? OFFSET : SGPR[OFFSET]; m_addr = (SGPR[SBASE] +
// m_offset) & ~0x3; SGPR[SDST+i] = read_dword_from_kcache(m_addr + 4*i)"

func execSMEM(name string, d *gcnasm.Desc, st *State, out *Outcome) {
	n := 0
	switch name {
	case "s_load_dword":
		n = 1
	case "s_load_dwordx2":
		n = 2
	case "s_load_dwordx4":
		n = 4
	case "s_load_dwordx8":
		n = 8
	case "s_load_dwordx16":
		n = 16
	default:
		bail("no reference for SMEM %s", name)
	}
	if d.SOE || d.NV {
		bail("SMEM SOE/NV not modelled")
	}
	base := st.ssrc64(d.Base, kBits)
	var off uint64
	if d.Imm {
		off = uint64(d.Offset) // GCN3: 20-bit unsigned; CDNA3: 21-bit signed (sign-extended by int64)
	} else {
		off = uint64(st.ssrc32(d.SOffset))
	}
	addr := (base + off) &^ 3
	if d.Data.Kind != gcnasm.KSGPR {
		if !(d.Data.Kind == gcnasm.KSpecial && d.Data.Index == gcnasm.CodeVCCLo && n <= 2) {
			bail("SMEM destination %v not modelled", d.Data)
		}
	}
	data := st.Mem.Read(addr, 4*n)
	if d.Data.Kind == gcnasm.KSpecial {
		if n == 1 {
			st.sdst32(d.Data, binary.LittleEndian.Uint32(data))
		} else {
			st.sdst64(d.Data, binary.LittleEndian.Uint64(data))
		}
		return
	}
	if d.Data.Index+n > NumSGPR {
		bail("SMEM destination beyond s101")
	}
	for i := 0; i < n; i++ {
		st.SGPR[d.Data.Index+i] = binary.LittleEndian.Uint32(data[4*i:])
	}
}

// ---------------------------------------------------------------------------
// DS

type dsSpec struct {
	kind  string // "write", "read", "write2", "read2", "atomic"
	bytes int    // bytes per element
	st64  bool
	sext  bool
	rtn   bool
	op    func(mem, d0 uint32) uint32 // atomic
}

func dsLookup(name string) (dsSpec, bool) {
	n := strings.TrimPrefix(name, "ds_")
	switch n {
	case "write_b8":
		return dsSpec{kind: "write", bytes: 1}, true
	case "write_b16":
		return dsSpec{kind: "write", bytes: 2}, true
	case "write_b32":
		return dsSpec{kind: "write", bytes: 4}, true
	case "write_b64":
		return dsSpec{kind: "write", bytes: 8}, true
	case "write_b96":
		return dsSpec{kind: "write", bytes: 12}, true
	case "write_b128":
		return dsSpec{kind: "write", bytes: 16}, true
	case "read_b32":
		return dsSpec{kind: "read", bytes: 4}, true
	case "read_b64":
		return dsSpec{kind: "read", bytes: 8}, true
	case "read_b96":
		return dsSpec{kind: "read", bytes: 12}, true
	case "read_b128":
		return dsSpec{kind: "read", bytes: 16}, true
	case "read_u8":
		return dsSpec{kind: "read", bytes: 1}, true
	case "read_i8":
		return dsSpec{kind: "read", bytes: 1, sext: true}, true
	case "read_u16":
		return dsSpec{kind: "read", bytes: 2}, true
	case "read_i16":
		return dsSpec{kind: "read", bytes: 2, sext: true}, true
	case "write2_b32":
		return dsSpec{kind: "write2", bytes: 4}, true
	case "write2st64_b32":
		return dsSpec{kind: "write2", bytes: 4, st64: true}, true
	case "write2_b64":
		return dsSpec{kind: "write2", bytes: 8}, true
	case "write2st64_b64":
		return dsSpec{kind: "write2", bytes: 8, st64: true}, true
	case "read2_b32":
		return dsSpec{kind: "read2", bytes: 4}, true
	case "read2st64_b32":
		return dsSpec{kind: "read2", bytes: 4, st64: true}, true
	case "read2_b64":
		return dsSpec{kind: "read2", bytes: 8}, true
	case "read2st64_b64":
		return dsSpec{kind: "read2", bytes: 8, st64: true}, true
	}
	// 32-bit read-modify-write: "DS[A] = DS[A] + D0; uint add." etc.; *_rtn_* also return the old value
	rtn := false
	if strings.Contains(n, "_rtn_") {
		rtn = true
		n = strings.Replace(n, "_rtn_", "_", 1)
	}
	var op func(m, d uint32) uint32
	switch n {
	case "add_u32":
		op = func(m, d uint32) uint32 { return m + d }
	case "sub_u32":
		op = func(m, d uint32) uint32 { return m - d }
	case "rsub_u32":
		op = func(m, d uint32) uint32 { return d - m }
	case "min_i32":
		op = func(m, d uint32) uint32 { return uint32(imin(int32(m), int32(d))) }
	case "max_i32":
		op = func(m, d uint32) uint32 { return uint32(imax(int32(m), int32(d))) }
	case "min_u32":
		op = umin
	case "max_u32":
		op = umax
	case "and_b32":
		op = func(m, d uint32) uint32 { return m & d }
	case "or_b32":
		op = func(m, d uint32) uint32 { return m | d }
	case "xor_b32":
		op = func(m, d uint32) uint32 { return m ^ d }
	default:
		return dsSpec{}, false
	}
	return dsSpec{kind: "atomic", bytes: 4, rtn: rtn, op: op}, true
}

func ldsCheck(st *State, a uint64, n int) {
	if a+uint64(n) > uint64(len(st.LDS)) {
		bail("LDS address 0x%x+%d outside the allocation: clamping rules not modelled", a, n)
	}
}

func execDS(name string, d *gcnasm.Desc, st *State, out *Outcome) {
	sp, ok := dsLookup(name)
	if !ok {
		bail("no reference for DS %s", name)
	}
	if d.GDS {
		bail("GDS not modelled")
	}
	if d.Addr.Kind != gcnasm.KVGPR {
		bail("DS address operand is not a VGPR")
	}
	readV := func(o gcnasm.Operand, ln, nbytes int) []byte {
		if o.Kind != gcnasm.KVGPR {
			bail("DS data operand is not a VGPR")
		}
		buf := make([]byte, (nbytes+3)/4*4)
		for i := 0; i < len(buf)/4; i++ {
			binary.LittleEndian.PutUint32(buf[4*i:], st.V(ln, o.Index+i))
		}
		return buf[:nbytes]
	}
	writeV := func(o gcnasm.Operand, ln, reg int, v uint32) {
		if o.Kind != gcnasm.KVGPR || o.Index+reg >= NumVGPR {
			bail("DS destination is not a VGPR in range")
		}
		st.SetV(ln, o.Index+reg, v)
	}
	off16 := uint64(d.Offset1)<<8 | uint64(d.Offset0)
	// all reads of a lane happen before its writes; lanes are independent (generator keeps lanes disjoint)
	for ln := 0; ln < NumLanes; ln++ {
		if !st.Active(ln) {
			continue
		}
		base := uint64(st.V(ln, d.Addr.Index))
		switch sp.kind {
		case "write":
			a := (base + off16) & 0xffffffff
			ldsCheck(st, a, sp.bytes)
			copy(st.LDS[a:], readV(d.Data, ln, sp.bytes))
		case "read":
			a := (base + off16) & 0xffffffff
			ldsCheck(st, a, sp.bytes)
			buf := make([]byte, (sp.bytes+3)/4*4)
			copy(buf, st.LDS[a:a+uint64(sp.bytes)])
			if sp.sext && st.LDS[a+uint64(sp.bytes)-1]&0x80 != 0 {
				for i := sp.bytes; i < 4; i++ {
					buf[i] = 0xff
				}
			}
			for i := 0; i < len(buf)/4; i++ {
				writeV(d.Dst, ln, i, binary.LittleEndian.Uint32(buf[4*i:]))
			}
		case "write2", "read2":
			// "DS[ADDR+offset0*4] = D0; DS[ADDR+offset1*4] = D1" (b64: *8; ST64: *64 more)
			scale := uint64(sp.bytes)
			if sp.st64 {
				scale *= 64
			}
			a0 := (base + uint64(d.Offset0)*scale) & 0xffffffff
			a1 := (base + uint64(d.Offset1)*scale) & 0xffffffff
			ldsCheck(st, a0, sp.bytes)
			ldsCheck(st, a1, sp.bytes)
			if sp.kind == "write2" {
				d0 := readV(d.Data, ln, sp.bytes)
				d1 := readV(d.Data1, ln, sp.bytes)
				copy(st.LDS[a0:], d0)
				copy(st.LDS[a1:], d1)
			} else {
				var buf [16]byte
				copy(buf[:], st.LDS[a0:a0+uint64(sp.bytes)])
				copy(buf[sp.bytes:], st.LDS[a1:a1+uint64(sp.bytes)])
				for i := 0; i < 2*sp.bytes/4; i++ {
					writeV(d.Dst, ln, i, binary.LittleEndian.Uint32(buf[4*i:]))
				}
			}
		case "atomic":
			a := (base + off16) & 0xffffffff
			ldsCheck(st, a, 4)
			old := binary.LittleEndian.Uint32(st.LDS[a:])
			d0 := binary.LittleEndian.Uint32(readV(d.Data, ln, 4))
			binary.LittleEndian.PutUint32(st.LDS[a:], sp.op(old, d0))
			if sp.rtn {
				writeV(d.Dst, ln, 0, old)
			}
		}
	}
}

// ---------------------------------------------------------------------------
// FLAT / GLOBAL

type flatSpec struct {
	store bool
	bytes int
	sext  bool
}

func flatLookup(name string) (flatSpec, bool) {
	n := name
	for _, p := range []string{"flat_", "global_"} {
		n = strings.TrimPrefix(n, p)
	}
	switch n {
	case "load_ubyte":
		return flatSpec{bytes: 1}, true
	case "load_sbyte":
		return flatSpec{bytes: 1, sext: true}, true
	case "load_ushort":
		return flatSpec{bytes: 2}, true
	case "load_sshort":
		return flatSpec{bytes: 2, sext: true}, true
	case "load_dword":
		return flatSpec{bytes: 4}, true
	case "load_dwordx2":
		return flatSpec{bytes: 8}, true
	case "load_dwordx3":
		return flatSpec{bytes: 12}, true
	case "load_dwordx4":
		return flatSpec{bytes: 16}, true
	case "store_byte":
		return flatSpec{store: true, bytes: 1}, true
	case "store_short":
		return flatSpec{store: true, bytes: 2}, true
	case "store_dword":
		return flatSpec{store: true, bytes: 4}, true
	case "store_dwordx2":
		return flatSpec{store: true, bytes: 8}, true
	case "store_dwordx3":
		return flatSpec{store: true, bytes: 12}, true
	case "store_dwordx4":
		return flatSpec{store: true, bytes: 16}, true
	}
	return flatSpec{}, false
}

// FlatAddr computes the per-lane address of a FLAT/GLOBAL access.
func FlatAddr(d *gcnasm.Desc, st *State, ln int) uint64 {
	if d.Addr.Kind != gcnasm.KVGPR {
		bail("FLAT address operand is not a VGPR")
	}
	if d.Arch == gcnasm.GCN3 {
		// 9.x: the address is the 64-bit value in the VGPR pair; GCN3 has no offset field
		return uint64(st.V(ln, d.Addr.Index)) | uint64(st.V(ln, d.Addr.Index+1))<<32
	}
	off := uint64(d.Offset) // sign-extended (global: 13-bit signed; flat: 12-bit unsigned, never negative)
	switch d.Seg {
	case gcnasm.SegFlat:
		return (uint64(st.V(ln, d.Addr.Index)) | uint64(st.V(ln, d.Addr.Index+1))<<32) + off
	case gcnasm.SegGlobal:
		if d.SAddr.Kind == gcnasm.KRaw && d.SAddr.Index == 0x7f || d.SAddr.Kind == gcnasm.KNone {
			// SADDR = off: ADDR is a 64-bit VGPR pair
			return (uint64(st.V(ln, d.Addr.Index)) | uint64(st.V(ln, d.Addr.Index+1))<<32) + off
		}
		// SADDR = SGPR pair: address = SGPR pair + zero-extended 32-bit VGPR offset + inst_offset
		return st.ssrc64(d.SAddr, kBits) + uint64(st.V(ln, d.Addr.Index)) + off
	}
	bail("scratch segment not modelled")
	return 0
}

func execFLAT(name string, d *gcnasm.Desc, st *State, out *Outcome) {
	sp, ok := flatLookup(name)
	if !ok {
		bail("no reference for FLAT %s", name)
	}
	if d.LDS {
		bail("FLAT LDS bit not modelled")
	}
	for ln := 0; ln < NumLanes; ln++ {
		if !st.Active(ln) {
			continue
		}
		a := FlatAddr(d, st, ln)
		if sp.store {
			if d.Data.Kind != gcnasm.KVGPR {
				bail("FLAT data operand is not a VGPR")
			}
			buf := make([]byte, (sp.bytes+3)/4*4)
			for i := 0; i < len(buf)/4; i++ {
				binary.LittleEndian.PutUint32(buf[4*i:], st.V(ln, d.Data.Index+i))
			}
			st.Mem.Write(a, buf[:sp.bytes])
			continue
		}
		if d.Dst.Kind != gcnasm.KVGPR {
			bail("FLAT destination is not a VGPR")
		}
		data := st.Mem.Read(a, sp.bytes)
		buf := make([]byte, (sp.bytes+3)/4*4)
		copy(buf, data)
		if sp.sext && data[sp.bytes-1]&0x80 != 0 {
			for i := sp.bytes; i < 4; i++ {
				buf[i] = 0xff
			}
		}
		for i := 0; i < len(buf)/4; i++ {
			st.SetV(ln, d.Dst.Index+i, binary.LittleEndian.Uint32(buf[4*i:]))
		}
	}
}
