package isaspec

import (
	"fmt"
	"strings"

	"verifharness/vlib/gcnasm"
)

// cdna3Only: instructions that exist only in the CDNA3 ("AMD Instinct MI300"
// ISA) tables; docs/cdna3_insts.pdf carries their opcode numbers and field
// layouts but not their descriptions, so the one-line definitions published
// in the MI300 ISA reference guide (chapter "Instructions") are stated here.
var cdna3Only = map[string]string{
	"s_mul_hi_u32":     "MI300 ISA, SOP2 44 S_MUL_HI_U32: D.u = (S0.u * S1.u) >> 32",
	"s_mul_hi_i32":     "MI300 ISA, SOP2 45 S_MUL_HI_I32: D.i = (S0.i * S1.i) >> 32",
	"v_fmac_f32":       "MI300 ISA, VOP2 59 V_FMAC_F32: D.f = fma(S0.f, S1.f, D.f) (single rounding)",
	"v_add_co_u32":     "MI300 ISA, VOP2 25 V_ADD_CO_U32 (= GCN3 V_ADD_U32): D.u = S0.u + S1.u; VCC[threadId] = carry-out",
	"v_sub_co_u32":     "MI300 ISA, VOP2 26 V_SUB_CO_U32 (= GCN3 V_SUB_U32): D.u = S0.u - S1.u; VCC[threadId] = borrow",
	"v_subrev_co_u32":  "MI300 ISA, VOP2 27 V_SUBREV_CO_U32 (= GCN3 V_SUBREV_U32): D.u = S1.u - S0.u; VCC[threadId] = borrow",
	"v_addc_co_u32":    "MI300 ISA, VOP2 28 V_ADDC_CO_U32 (= GCN3 V_ADDC_U32): D.u = S0.u + S1.u + VCC[threadId]; VCC[threadId] = carry-out",
	"v_subb_co_u32":    "MI300 ISA, VOP2 29 V_SUBB_CO_U32 (= GCN3 V_SUBB_U32): D.u = S0.u - S1.u - VCC[threadId]; VCC[threadId] = borrow",
	"v_subbrev_co_u32": "MI300 ISA, VOP2 30 V_SUBBREV_CO_U32 (= GCN3 V_SUBBREV_U32): D.u = S1.u - S0.u - VCC[threadId]; VCC[threadId] = borrow",
	"v_add_nc_u32":     "MI300 ISA, VOP2 52 V_ADD_U32: D.u = S0.u + S1.u (no carry-out)",
	"v_sub_nc_u32":     "MI300 ISA, VOP2 53 V_SUB_U32: D.u = S0.u - S1.u (no carry-out)",
	"v_subrev_nc_u32":  "MI300 ISA, VOP2 54 V_SUBREV_U32: D.u = S1.u - S0.u (no carry-out)",
	"v_lshl_add_u32":   "MI300 ISA, VOP3 509 V_LSHL_ADD_U32: D.u = (S0.u << S1.u[4:0]) + S2.u",
	"v_add_lshl_u32":   "MI300 ISA, VOP3 510 V_ADD_LSHL_U32: D.u = (S0.u + S1.u) << S2.u[4:0]",
	"v_add3_u32":       "MI300 ISA, VOP3 511 V_ADD3_U32: D.u = S0.u + S1.u + S2.u",
	"v_lshl_or_b32":    "MI300 ISA, VOP3 512 V_LSHL_OR_B32: D.u = (S0.u << S1.u[4:0]) | S2.u",
	"v_and_or_b32":     "MI300 ISA, VOP3 513 V_AND_OR_B32: D.u = (S0.u & S1.u) | S2.u",
	"v_or3_b32":        "MI300 ISA, VOP3 514 V_OR3_B32: D.u = S0.u | S1.u | S2.u",
	"v_xad_u32":        "MI300 ISA, VOP3 499 V_XAD_U32: D.u = (S0.u ^ S1.u) + S2.u",
	"v_lshl_add_u64":   "MI300 ISA, VOP3 520 V_LSHL_ADD_U64: D.u64 = (S0.u64 << S1.u[2:0]) + S2.u64 (shift 0..4)",
	"v_min_f64":        "GCN3 ISA 12: V_MIN_F64: same NaN/compare rule as V_MIN_F32 on doubles",
	"v_max_f64":        "GCN3 ISA 12: V_MAX_F64: same NaN/compare rule as V_MAX_F32 on doubles",
	"ds_write_b96":     "MI300 ISA, DS 222 DS_WRITE_B96: DS[A] = D0[95:0]",
	"ds_write_b128":    "MI300 ISA, DS 223 DS_WRITE_B128: DS[A] = D0[127:0]",
	"ds_read_b96":      "MI300 ISA, DS 254 DS_READ_B96: R = DS[A] (3 dwords)",
	"ds_read_b128":     "MI300 ISA, DS 255 DS_READ_B128: R = DS[A] (4 dwords)",
}

const vccRule = " | GCN3 ISA 3.x: \"V_CMP_*: VCC[n] = EXEC[n] & (test passed for thread[n]). VCC is always fully written; there are no partial mask updates.\""

// NameOf returns the manual mnemonic of (arch, format, opcode): the name the
// architecture's own opcode table gives the number ("" if unassigned there).
func NameOf(arch gcnasm.Arch, f gcnasm.Format, opcode int) string {
	return gcnasm.NameOf(arch, f, opcode)
}

// Cite returns the manual text transcribed for a mnemonic.
func Cite(arch gcnasm.Arch, f gcnasm.Format, name string) string {
	key := name
	switch f {
	case gcnasm.VOP1, gcnasm.VOP2, gcnasm.VOP3a, gcnasm.VOP3b:
		key = valuName(arch, name)
	}
	if c, ok := cdna3Only[key]; ok && (arch == gcnasm.CDNA3 || manualGCN3[name] == "") {
		if strings.Contains(key, "_co_u32") {
			c += vccRule
		}
		return c
	}
	if strings.HasPrefix(name, "v_cmp") {
		p := strings.Split(name, "_")
		if len(p) == 4 {
			return fmt.Sprintf("GCN3 ISA 12.9: V_CMP{X}_{OP}_%s, compare operation %s of the OP16/OP8 tables (F: 0, LT: S0<S1, EQ, LE, GT, LG: S0<>S1, GE, O: !isNaN(S0)&&!isNaN(S1), U, NGE: !(S0>=S1), NLG, NGT, NLE, NEQ, NLT, TRU: 1); CMPX: \"Also write EXEC.\"%s",
				strings.ToUpper(p[3]), strings.ToUpper(p[2]), vccRule)
		}
	}
	c := manualGCN3[name]
	if c == "" {
		c = manualGCN3[strings.TrimPrefix(name, "global_")]
	}
	if c == "" && strings.HasPrefix(name, "global_") {
		c = manualGCN3["flat_"+strings.TrimPrefix(name, "global_")]
	}
	if arch == gcnasm.CDNA3 && c != "" {
		c += " (CDNA3: same-named instruction, GCN3 semantics)"
	}
	switch {
	case strings.HasPrefix(name, "ds_") && !strings.Contains(name, "2"):
		c += " | GCN3 ISA 10.3.1 (LDS indexed): \"LDS_Addr = LDS_BASE + VGPR[ADDR] + {InstrOffset1,InstrOffset0}\"; 13: OFFSET0 = \"Unsigned byte offset added to the address supplied by the ADDR VGPR\""
	case strings.HasPrefix(name, "v_add") || strings.HasPrefix(name, "v_sub"):
		if strings.HasSuffix(name, "_u32") {
			c += vccRule
		}
	case strings.HasPrefix(name, "s_cbranch") || name == "s_branch":
		c += " (PC in the formula is the branch's own address; the simulator has already advanced PC by 4)"
	}
	return c
}

// HasRef reports whether the reference covers (arch, format, opcode) at all,
// and under which mnemonic.
func HasRef(arch gcnasm.Arch, f gcnasm.Format, opcode int) (name string, ok bool, why string) {
	name = NameOf(arch, f, opcode)
	if name == "" {
		return "", false, "opcode not assigned in this architecture's opcode table"
	}
	if arch == gcnasm.CDNA3 && (f == gcnasm.VOP3a || f == gcnasm.VOP3b) && opcode >= 384 && opcode < 512 && strings.HasSuffix(name, "_f16") {
		return name, false, "CDNA3 table lists an f16 VOP1 promotion at this number"
	}
	switch f {
	case gcnasm.SOP2:
		_, ok = sop2Table[name]
	case gcnasm.SOP1:
		_, ok = sop1Table[name]
	case gcnasm.SOPC:
		ok = strings.HasPrefix(name, "s_cmp_") || strings.HasPrefix(name, "s_bitcmp")
	case gcnasm.SOPK:
		ok = name == "s_movk_i32" || name == "s_cmovk_i32" || strings.HasPrefix(name, "s_cmpk_") || name == "s_addk_i32" || name == "s_mulk_i32"
	case gcnasm.SOPP:
		switch name {
		case "s_nop", "s_waitcnt", "s_branch", "s_cbranch_scc0", "s_cbranch_scc1", "s_cbranch_vccz", "s_cbranch_vccnz", "s_cbranch_execz", "s_cbranch_execnz":
			ok = true
		}
	case gcnasm.SMEM:
		ok = strings.HasPrefix(name, "s_load_dword")
	case gcnasm.VOPC:
		ok = vopcHasRef(name)
	case gcnasm.VOP1, gcnasm.VOP2, gcnasm.VOP3a, gcnasm.VOP3b:
		if strings.HasPrefix(name, "v_cmp") {
			ok = vopcHasRef(name)
			break
		}
		key := valuName(arch, name)
		_, ok = valuTable[key]
		if key == "v_readfirstlane_b32" || key == "v_readlane_b32" {
			ok = true
		}
	case gcnasm.DS:
		_, ok = dsLookup(name)
	case gcnasm.FLAT:
		_, ok = flatLookup(name)
	}
	if !ok {
		why = "no exact reference (transcendental, f16, packed, division helper, or outside the supported subset)"
	}
	return name, ok, why
}

func vopcHasRef(name string) bool {
	p := strings.Split(name, "_")
	if len(p) != 4 {
		return false
	}
	switch p[3] {
	case "f32", "f64", "i32", "u32", "i64", "u64", "i16", "u16":
		return true
	}
	return false
}

// Exec applies the instruction described by d to st (in place) and reports
// which cells of the result are loose. If the instruction or one of its
// operands is outside the reference, Ref is false and st must be discarded
// (it may be partially updated).
func Exec(d *gcnasm.Desc, st *State) (out Outcome) {
	name, ok, why := HasRef(d.Arch, d.Format, d.Opcode)
	out.Name = name
	if !ok {
		out.Why = why
		return out
	}
	out.Cite = Cite(d.Arch, d.Format, name)
	defer func() {
		if r := recover(); r != nil {
			nr, isNR := r.(noRef)
			if !isNR {
				panic(r)
			}
			// the state may be partially updated: callers discard it
			out = Outcome{Name: name, Why: nr.why}
		}
	}()
	switch d.Format {
	case gcnasm.SOP2:
		execSOP2(name, d, st, &out)
	case gcnasm.SOP1:
		execSOP1(name, d, st, &out)
	case gcnasm.SOPC:
		execSOPC(name, d, st, &out)
	case gcnasm.SOPK:
		execSOPK(name, d, st, &out)
	case gcnasm.SOPP:
		execSOPP(name, d, st, &out)
	case gcnasm.SMEM:
		execSMEM(name, d, st, &out)
	case gcnasm.VOPC:
		execVOPC(name, d, st, &out)
	case gcnasm.VOP1, gcnasm.VOP2, gcnasm.VOP3a, gcnasm.VOP3b:
		if strings.HasPrefix(name, "v_cmp") {
			execVOPC(name, d, st, &out)
		} else {
			execVALU(valuName(d.Arch, name), d, st, &out)
		}
	case gcnasm.DS:
		execDS(name, d, st, &out)
	case gcnasm.FLAT:
		execFLAT(name, d, st, &out)
	default:
		bail("format %v not covered", d.Format)
	}
	out.Ref = true
	return out
}

// ShapeInfo describes the operands of a VALU instruction the reference
// covers, for the benefit of case generators (value domains per source).
type ShapeInfo struct {
	SrcW                                [3]int // dwords, 0 = absent
	SrcF                                [3]int // 0 integer/bits, 1 f32, 2 f64
	DstW                                int
	DstF                                int
	CarryIn, CarryOut, Select, ReadsDst bool
	Compare, CmpX                       bool
	DstSGPR                             bool // v_readfirstlane / v_readlane
	LaneSelSrc1                         bool
}

// Shape returns the operand shape of a VALU (VOP1/VOP2/VOPC/VOP3) instruction.
func Shape(arch gcnasm.Arch, f gcnasm.Format, opcode int) (ShapeInfo, bool) {
	name := NameOf(arch, f, opcode)
	var s ShapeInfo
	if strings.HasPrefix(name, "v_cmp") {
		p := strings.Split(name, "_")
		if len(p) != 4 || !vopcHasRef(name) {
			return s, false
		}
		s.Compare, s.CmpX = true, p[1] == "cmpx"
		w, fl := 1, 0
		switch p[3] {
		case "f32":
			fl = 1
		case "f64":
			w, fl = 2, 2
		case "i64", "u64":
			w = 2
		}
		s.SrcW, s.SrcF = [3]int{w, w}, [3]int{fl, fl}
		if p[2] == "class" {
			s.SrcW[1], s.SrcF[1] = 1, 0
		}
		return s, true
	}
	key := valuName(arch, name)
	switch key {
	case "v_readfirstlane_b32":
		return ShapeInfo{SrcW: [3]int{1}, DstW: 1, DstSGPR: true}, true
	case "v_readlane_b32":
		return ShapeInfo{SrcW: [3]int{1, 1}, DstW: 1, DstSGPR: true, LaneSelSrc1: true}, true
	}
	sp, ok := valuTable[key]
	if !ok {
		return s, false
	}
	s.SrcW, s.DstW = sp.w, sp.dw
	for i, k := range sp.k {
		s.SrcF[i] = int(k)
	}
	s.DstF = int(sp.dk)
	s.CarryIn, s.CarryOut, s.Select, s.ReadsDst = sp.cin, sp.cout, sp.sel, sp.rd
	return s, true
}
