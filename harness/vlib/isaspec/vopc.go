package isaspec

import (
	"strings"

	"verifharness/vlib/gcnasm"
)

// VOPC (GCN3 manual 12.9; 3.x "V_CMP_*: VCC[n] = EXEC[n] & (test passed for
// thread[n]). VCC is always fully written; there are no partial mask
// updates."; 6.2.2 "All V_CMPX instructions write the result of their
// comparison (one bit per thread) to both an SGPR (or VCC) and the EXEC mask").

// cmpF evaluates one of the 16 float compare operations of table "OP16".
func cmpF(op string, a, b float64, unordered bool) bool {
	switch op {
	case "f":
		return false
	case "lt":
		return !unordered && a < b
	case "eq":
		return !unordered && a == b
	case "le":
		return !unordered && a <= b
	case "gt":
		return !unordered && a > b
	case "lg":
		return !unordered && a != b // "S0 <> S1": less or greater
	case "ge":
		return !unordered && a >= b
	case "o":
		return !unordered
	case "u":
		return unordered
	case "nge":
		return unordered || !(a >= b)
	case "nlg":
		return unordered || !(a != b)
	case "ngt":
		return unordered || !(a > b)
	case "nle":
		return unordered || !(a <= b)
	case "neq":
		return unordered || !(a == b)
	case "nlt":
		return unordered || !(a < b)
	case "tru", "t":
		return true
	}
	bail("unknown float compare %q", op)
	return false
}

// classF: V_CMP_CLASS mask bits (12.9 table 12.3).
func classBits32(x uint32) uint32 {
	neg := x>>31 == 1
	switch {
	case isSNaN32(x):
		return 1 << 0
	case isNaN32(x):
		return 1 << 1
	case isInf32(x):
		if neg {
			return 1 << 2
		}
		return 1 << 9
	case isZero32(x):
		if neg {
			return 1 << 5
		}
		return 1 << 6
	case isDen32(x):
		if neg {
			return 1 << 4
		}
		return 1 << 7
	}
	if neg {
		return 1 << 3
	}
	return 1 << 8
}

func classBits64(x uint64) uint32 {
	neg := x>>63 == 1
	switch {
	case isSNaN64(x):
		return 1 << 0
	case isNaN64(x):
		return 1 << 1
	case isInf64(x):
		if neg {
			return 1 << 2
		}
		return 1 << 9
	case isZero64(x):
		if neg {
			return 1 << 5
		}
		return 1 << 6
	case isDen64(x):
		if neg {
			return 1 << 4
		}
		return 1 << 7
	}
	if neg {
		return 1 << 3
	}
	return 1 << 8
}

func execVOPC(name string, d *gcnasm.Desc, st *State, out *Outcome) {
	p := strings.Split(name, "_")
	if len(p) != 4 || (p[1] != "cmp" && p[1] != "cmpx") {
		bail("no reference for VOPC %s", name)
	}
	x := p[1] == "cmpx"
	op, ty := p[2], p[3]
	if d.SDWA != nil || d.DPP != nil {
		bail("SDWA/DPP compare not modelled")
	}
	vop3 := d.Format == gcnasm.VOP3a
	if d.Omod != 0 {
		bail("OMOD on a compare")
	}
	isF := ty == "f32" || ty == "f64"
	if !isF && (d.Abs != 0 || d.Neg != 0) {
		bail("ABS/NEG on an integer compare")
	}
	var res, unjudged uint64
	for ln := 0; ln < NumLanes; ln++ {
		if !st.Active(ln) {
			continue
		}
		var t bool
		switch ty {
		case "f32":
			a := inMod32(st.vsrc32(d.Src0, ln), absBit(d.Abs, 0), absBit(d.Neg, 0))
			if op == "class" {
				m := st.vsrc32(d.Src1, ln)
				t = classBits32(a)&m != 0
				break
			}
			b := inMod32(st.vsrc32(d.Src1, ln), absBit(d.Abs, 1), absBit(d.Neg, 1))
			if anyDen32(a, b) {
				unjudged |= 1 << uint(ln) // flushing a denormal operand can change the relation
			}
			t = cmpF(op, float64(f32(a)), float64(f32(b)), anyNaN32(a, b))
		case "f64":
			a := inMod64(st.vsrc64(d.Src0, ln, kF64), absBit(d.Abs, 0), absBit(d.Neg, 0))
			if op == "class" {
				m := st.vsrc32(d.Src1, ln)
				t = classBits64(a)&m != 0
				break
			}
			b := inMod64(st.vsrc64(d.Src1, ln, kF64), absBit(d.Abs, 1), absBit(d.Neg, 1))
			if anyDen64(a, b) {
				unjudged |= 1 << uint(ln)
			}
			t = cmpF(op, f64(a), f64(b), anyNaN64(a, b))
		case "i32":
			t = cmpI(op, int64(int32(st.vsrc32(d.Src0, ln))), int64(int32(st.vsrc32(d.Src1, ln))))
		case "u32":
			t = cmpU(op, uint64(st.vsrc32(d.Src0, ln)), uint64(st.vsrc32(d.Src1, ln)))
		case "i64":
			t = cmpI(op, int64(st.vsrc64(d.Src0, ln, kBits)), int64(st.vsrc64(d.Src1, ln, kBits)))
		case "u64":
			t = cmpU(op, st.vsrc64(d.Src0, ln, kBits), st.vsrc64(d.Src1, ln, kBits))
		case "i16":
			t = cmpI(op, int64(int16(st.vsrc32(d.Src0, ln))), int64(int16(st.vsrc32(d.Src1, ln))))
		case "u16":
			t = cmpU(op, uint64(uint16(st.vsrc32(d.Src0, ln))), uint64(uint16(st.vsrc32(d.Src1, ln))))
		default:
			bail("no exact reference for compares on %s", ty)
		}
		if t {
			res |= 1 << uint(ln)
		}
	}
	looseMask := func(cells []int) {
		if unjudged == 0 {
			return
		}
		if uint32(unjudged) != 0 {
			out.loose(cells[0], Loose{Mask: uint32(unjudged), Why: "compare with a denormal operand: MODE.denorm decides"})
		}
		if uint32(unjudged>>32) != 0 {
			out.loose(cells[1], Loose{Mask: uint32(unjudged >> 32), Why: "compare with a denormal operand: MODE.denorm decides"})
		}
	}
	if vop3 {
		st.sdst64(d.Dst, res)
		if cs := sdstCells(d.Dst, 2); len(cs) == 2 {
			looseMask(cs)
		}
	} else {
		st.VCC = res
		looseMask([]int{CellVCCLo, CellVCCHi})
	}
	if x {
		st.EXEC = res
		looseMask([]int{CellEXECLo, CellEXECHi})
	}
}
