package isaspec

import (
	"math/bits"
	"strings"

	"verifharness/vlib/gcnasm"
)

// Scalar ALU (GCN3 manual chapter 5, 12.1-12.5, opcode lists of 13.1).
// Every function is the manual's formula with explicit masking; widths are
// the ones the mnemonic's suffix implies.

func bool32(b bool) uint32 {
	if b {
		return 1
	}
	return 0
}

type sop2Spec struct {
	w0, w1, wd int // operand widths in dwords
	// f returns the destination, the new SCC and whether SCC is written.
	f func(a, b uint64, scc uint32) (d uint64, newSCC uint32, setsSCC bool)
}

func nz(d uint64) uint32 { return bool32(d != 0) }

func logic32(op func(a, b uint32) uint32) sop2Spec {
	return sop2Spec{1, 1, 1, func(a, b uint64, _ uint32) (uint64, uint32, bool) {
		d := uint64(op(uint32(a), uint32(b)))
		return d, nz(d), true
	}}
}

func logic64(op func(a, b uint64) uint64) sop2Spec {
	return sop2Spec{2, 2, 2, func(a, b uint64, _ uint32) (uint64, uint32, bool) {
		d := op(a, b)
		return d, nz(d), true
	}}
}

func sext(v uint64, fromBits uint) uint64 {
	if fromBits == 0 || fromBits >= 64 {
		return v
	}
	sh := 64 - fromBits
	return uint64(int64(v<<sh) >> sh)
}

var sop2Table = map[string]sop2Spec{
	// "D.u = S0.u + S1.u. SCC = unsigned carry out."
	"s_add_u32": {1, 1, 1, func(a, b uint64, _ uint32) (uint64, uint32, bool) {
		s := (a & 0xffffffff) + (b & 0xffffffff)
		return s & 0xffffffff, uint32(s >> 32), true
	}},
	// "D.u = S0.u - S1.u. SCC = unsigned carry out." (borrow)
	"s_sub_u32": {1, 1, 1, func(a, b uint64, _ uint32) (uint64, uint32, bool) {
		d, borrow := bits.Sub32(uint32(a), uint32(b), 0)
		return uint64(d), borrow, true
	}},
	// "D.u = S0.i + S1.i. SCC = signed overflow."
	"s_add_i32": {1, 1, 1, func(a, b uint64, _ uint32) (uint64, uint32, bool) {
		x, y := int64(int32(uint32(a))), int64(int32(uint32(b)))
		s := x + y
		return uint64(uint32(s)), bool32(s > 0x7fffffff || s < -0x80000000), true
	}},
	// "D.u = S0.i - S1.i. SCC = borrow." (table 5.2: "SCC = overflow"): signed overflow
	"s_sub_i32": {1, 1, 1, func(a, b uint64, _ uint32) (uint64, uint32, bool) {
		x, y := int64(int32(uint32(a))), int64(int32(uint32(b)))
		s := x - y
		return uint64(uint32(s)), bool32(s > 0x7fffffff || s < -0x80000000), true
	}},
	// "D.u = S0.u + S1.u + SCC. SCC = unsigned carry-out."
	"s_addc_u32": {1, 1, 1, func(a, b uint64, scc uint32) (uint64, uint32, bool) {
		s := (a & 0xffffffff) + (b & 0xffffffff) + uint64(scc&1)
		return s & 0xffffffff, uint32(s >> 32), true
	}},
	// "D.u = S0.u - S1.u - SCC. SCC = unsigned carry-out."
	"s_subb_u32": {1, 1, 1, func(a, b uint64, scc uint32) (uint64, uint32, bool) {
		d, borrow := bits.Sub32(uint32(a), uint32(b), scc&1)
		return uint64(d), borrow, true
	}},
	// "D.i = (S0.i < S1.i) ? S0.i : S1.i. SCC = 1 if S0 is min."
	"s_min_i32": {1, 1, 1, func(a, b uint64, _ uint32) (uint64, uint32, bool) {
		if int32(uint32(a)) < int32(uint32(b)) {
			return a & 0xffffffff, 1, true
		}
		return b & 0xffffffff, 0, true
	}},
	"s_min_u32": {1, 1, 1, func(a, b uint64, _ uint32) (uint64, uint32, bool) {
		if uint32(a) < uint32(b) {
			return a & 0xffffffff, 1, true
		}
		return b & 0xffffffff, 0, true
	}},
	// "D.i = (S0.i > S1.i) ? S0.i : S1.i. SCC = 1 if S0 is max."
	"s_max_i32": {1, 1, 1, func(a, b uint64, _ uint32) (uint64, uint32, bool) {
		if int32(uint32(a)) > int32(uint32(b)) {
			return a & 0xffffffff, 1, true
		}
		return b & 0xffffffff, 0, true
	}},
	"s_max_u32": {1, 1, 1, func(a, b uint64, _ uint32) (uint64, uint32, bool) {
		if uint32(a) > uint32(b) {
			return a & 0xffffffff, 1, true
		}
		return b & 0xffffffff, 0, true
	}},
	// "D.u = SCC ? S0.u : S1.u."
	"s_cselect_b32": {1, 1, 1, func(a, b uint64, scc uint32) (uint64, uint32, bool) {
		if scc != 0 {
			return a & 0xffffffff, 0, false
		}
		return b & 0xffffffff, 0, false
	}},
	"s_cselect_b64": {2, 2, 2, func(a, b uint64, scc uint32) (uint64, uint32, bool) {
		if scc != 0 {
			return a, 0, false
		}
		return b, 0, false
	}},
	"s_and_b32":   logic32(func(a, b uint32) uint32 { return a & b }),
	"s_and_b64":   logic64(func(a, b uint64) uint64 { return a & b }),
	"s_or_b32":    logic32(func(a, b uint32) uint32 { return a | b }),
	"s_or_b64":    logic64(func(a, b uint64) uint64 { return a | b }),
	"s_xor_b32":   logic32(func(a, b uint32) uint32 { return a ^ b }),
	"s_xor_b64":   logic64(func(a, b uint64) uint64 { return a ^ b }),
	"s_andn2_b32": logic32(func(a, b uint32) uint32 { return a &^ b }),
	"s_andn2_b64": logic64(func(a, b uint64) uint64 { return a &^ b }),
	"s_orn2_b32":  logic32(func(a, b uint32) uint32 { return a | ^b }),
	"s_orn2_b64":  logic64(func(a, b uint64) uint64 { return a | ^b }),
	"s_nand_b32":  logic32(func(a, b uint32) uint32 { return ^(a & b) }),
	"s_nand_b64":  logic64(func(a, b uint64) uint64 { return ^(a & b) }),
	"s_nor_b32":   logic32(func(a, b uint32) uint32 { return ^(a | b) }),
	"s_nor_b64":   logic64(func(a, b uint64) uint64 { return ^(a | b) }),
	"s_xnor_b32":  logic32(func(a, b uint32) uint32 { return ^(a ^ b) }),
	"s_xnor_b64":  logic64(func(a, b uint64) uint64 { return ^(a ^ b) }),
	// "D.u = S0.u << S1.u[4:0]. SCC = 1 if result is non-zero."
	"s_lshl_b32": {1, 1, 1, func(a, b uint64, _ uint32) (uint64, uint32, bool) {
		d := uint64(uint32(a) << (b & 31))
		return d, nz(d), true
	}},
	// "D.u = S0.u << S1.u[5:0]. SCC = 1 if result is non-zero."
	"s_lshl_b64": {2, 1, 2, func(a, b uint64, _ uint32) (uint64, uint32, bool) {
		d := a << (b & 63)
		return d, nz(d), true
	}},
	"s_lshr_b32": {1, 1, 1, func(a, b uint64, _ uint32) (uint64, uint32, bool) {
		d := uint64(uint32(a) >> (b & 31))
		return d, nz(d), true
	}},
	"s_lshr_b64": {2, 1, 2, func(a, b uint64, _ uint32) (uint64, uint32, bool) {
		d := a >> (b & 63)
		return d, nz(d), true
	}},
	// "D.i = signext(S0.i) >> S1.i[4:0]. SCC = 1 if result is non-zero."
	"s_ashr_i32": {1, 1, 1, func(a, b uint64, _ uint32) (uint64, uint32, bool) {
		d := uint64(uint32(int32(uint32(a)) >> (b & 31)))
		return d, nz(d), true
	}},
	"s_ashr_i64": {2, 1, 2, func(a, b uint64, _ uint32) (uint64, uint32, bool) {
		d := uint64(int64(a) >> (b & 63))
		return d, nz(d), true
	}},
	// "D.u = ((1 << S0.u[4:0]) - 1) << S1.u[4:0]; bitfield mask." (SCC untouched)
	"s_bfm_b32": {1, 1, 1, func(a, b uint64, _ uint32) (uint64, uint32, bool) {
		return uint64(((uint32(1) << (a & 31)) - 1) << (b & 31)), 0, false
	}},
	"s_bfm_b64": {1, 1, 2, func(a, b uint64, _ uint32) (uint64, uint32, bool) {
		return ((uint64(1) << (a & 63)) - 1) << (b & 63), 0, false
	}},
	// "D.i = S0.i * S1.i." (table 5.2: sets SCC? n)
	"s_mul_i32": {1, 1, 1, func(a, b uint64, _ uint32) (uint64, uint32, bool) {
		return uint64(uint32(a) * uint32(b)), 0, false
	}},
	// 13.1: "S0 is data, S1[4:0] is field offset, S1[22:16] is field width.
	// D.u = (S0.u >> S1.u[4:0]) & ((1 << S1.u[22:16]) - 1). SCC = 1 if result is non-zero."
	"s_bfe_u32": {1, 1, 1, func(a, b uint64, _ uint32) (uint64, uint32, bool) {
		off, w := uint(b&31), uint(b>>16&0x7f)
		d := (a & 0xffffffff) >> off
		if w < 64 {
			d &= (uint64(1) << w) - 1
		}
		d &= 0xffffffff
		return d, nz(d), true
	}},
	// same extraction, "then sign-extend result for I32/64" (table 5.5);
	// "SCC = 1 if result is non-zero. Test sign-extended result."
	"s_bfe_i32": {1, 1, 1, func(a, b uint64, _ uint32) (uint64, uint32, bool) {
		off, w := uint(b&31), uint(b>>16&0x7f)
		d := (a & 0xffffffff) >> off
		if w == 0 {
			return 0, 0, true
		}
		if w < 32 {
			d &= (uint64(1) << w) - 1
			d = sext(d, w)
		} else {
			d = sext(d, 32-off) // field runs to bit 31: sign = bit 31 of the source
		}
		d &= 0xffffffff
		return d, nz(d), true
	}},
	"s_bfe_u64": {2, 1, 2, func(a, b uint64, _ uint32) (uint64, uint32, bool) {
		off, w := uint(b&63), uint(b>>16&0x7f)
		d := a >> off
		if w < 64 {
			d &= (uint64(1) << w) - 1
		}
		return d, nz(d), true
	}},
	"s_bfe_i64": {2, 1, 2, func(a, b uint64, _ uint32) (uint64, uint32, bool) {
		off, w := uint(b&63), uint(b>>16&0x7f)
		d := a >> off
		if w == 0 {
			return 0, 0, true
		}
		if w < 64 {
			d &= (uint64(1) << w) - 1
			d = sext(d, w)
		} else {
			d = sext(d, 64-off)
		}
		return d, nz(d), true
	}},
	// "D.i = abs(S0.i - S1.i). SCC = 1 if result is non-zero."
	"s_absdiff_i32": {1, 1, 1, func(a, b uint64, _ uint32) (uint64, uint32, bool) {
		x := int64(int32(uint32(a))) - int64(int32(uint32(b)))
		if x < 0 {
			x = -x
		}
		d := uint64(uint32(x))
		return d, nz(d), true
	}},
	// CDNA3 ("MI300" ISA, SOP2 44): D.u = (S0.u * S1.u) >> 32. SCC untouched.
	"s_mul_hi_u32": {1, 1, 1, func(a, b uint64, _ uint32) (uint64, uint32, bool) {
		hi, _ := bits.Mul32(uint32(a), uint32(b))
		return uint64(hi), 0, false
	}},
	// CDNA3 (SOP2 45): D.i = (S0.i * S1.i) >> 32.
	"s_mul_hi_i32": {1, 1, 1, func(a, b uint64, _ uint32) (uint64, uint32, bool) {
		p := int64(int32(uint32(a))) * int64(int32(uint32(b)))
		return uint64(uint32(p >> 32)), 0, false
	}},
}

// bfeOpen reports S_BFE_I* operand values for which the manual's two
// descriptions (field clipped at the top bit) do not fix the sign source.
func bfeIOpen(name string, b uint64) bool {
	if name == "s_bfe_i32" {
		off, w := uint(b&31), uint(b>>16&0x7f)
		return w != 0 && off+w > 32
	}
	if name == "s_bfe_i64" {
		off, w := uint(b&63), uint(b>>16&0x7f)
		return w != 0 && off+w > 64
	}
	return false
}

func (s *State) readS(o gcnasm.Operand, w int) uint64 {
	if w == 2 {
		return s.ssrc64(o, kBits)
	}
	return uint64(s.ssrc32(o))
}

func (s *State) writeS(o gcnasm.Operand, w int, v uint64) {
	if w == 2 {
		s.sdst64(o, v)
	} else {
		s.sdst32(o, uint32(v))
	}
}

func execSOP2(name string, d *gcnasm.Desc, st *State, out *Outcome) {
	sp, ok := sop2Table[name]
	if !ok {
		bail("no reference for SOP2 %s", name)
	}
	a := st.readS(d.Src0, sp.w0)
	b := st.readS(d.Src1, sp.w1)
	r, scc, sets := sp.f(a, b, st.SCC)
	if bfeIOpen(name, b) {
		// clipped field: logical or arithmetic fill are both defensible
		for _, c := range sdstCells(d.Dst, sp.wd) {
			out.loose(c, Loose{Mask: 0xffffffff, Why: "S_BFE_I*: offset+width beyond the operand size; sign source not specified"})
		}
	}
	st.writeS(d.Dst, sp.wd, r)
	if sets {
		st.SCC = scc
	}
	if name == "s_sub_i32" {
		// 12.1 says "SCC = borrow", 13.1 and table 5.2 say "SCC = overflow": either conforms
		if borrow := bool32(uint32(a) < uint32(b)); borrow != scc {
			out.loose(CellSCC, Loose{Alt: []uint32{borrow}, Why: "S_SUB_I32: chapter 12 'SCC = borrow' vs chapter 13 / table 5.2 'SCC = overflow'"})
		}
	}
}

// ---------------------------------------------------------------------------
// SOP1

type sop1Spec struct {
	w0, wd int
	f      func(a uint64, dOld uint64, st *State) (d uint64, newSCC uint32, setsSCC bool, writesD bool)
}

func un32(f func(a uint32) uint32, scc bool) sop1Spec {
	return sop1Spec{1, 1, func(a, _ uint64, _ *State) (uint64, uint32, bool, bool) {
		d := uint64(f(uint32(a)))
		return d, nz(d), scc, true
	}}
}

func un64(f func(a uint64) uint64, scc bool) sop1Spec {
	return sop1Spec{2, 2, func(a, _ uint64, _ *State) (uint64, uint32, bool, bool) {
		d := f(a)
		return d, nz(d), scc, true
	}}
}

func wqm(a uint64, width int) uint64 {
	var d uint64
	for i := 0; i < width; i += 4 {
		if a>>uint(i)&0xf != 0 {
			d |= 0xf << uint(i)
		}
	}
	return d
}

func quadmask(a uint64, width int) uint64 {
	var d uint64
	for i := 0; i < width/4; i++ {
		if a>>uint(4*i)&0xf != 0 {
			d |= 1 << uint(i)
		}
	}
	return d
}

func saveexec(op func(s0, exec uint64) uint64) sop1Spec {
	// "D.u = EXEC, EXEC = S0.u <op> EXEC. SCC = 1 if the new value of EXEC is non-zero."
	return sop1Spec{2, 2, func(a, _ uint64, st *State) (uint64, uint32, bool, bool) {
		old := st.EXEC
		st.EXEC = op(a, old)
		return old, nz(st.EXEC), true, true
	}}
}

var sop1Table = map[string]sop1Spec{
	"s_mov_b32": un32(func(a uint32) uint32 { return a }, false),
	"s_mov_b64": un64(func(a uint64) uint64 { return a }, false),
	// "if(SCC) D.u = S0.u; else NOP."
	"s_cmov_b32": {1, 1, func(a, _ uint64, st *State) (uint64, uint32, bool, bool) { return a, 0, false, st.SCC != 0 }},
	"s_cmov_b64": {2, 2, func(a, _ uint64, st *State) (uint64, uint32, bool, bool) { return a, 0, false, st.SCC != 0 }},
	// "D.u = ~S0.u. SCC = 1 if result non-zero."
	"s_not_b32": un32(func(a uint32) uint32 { return ^a }, true),
	"s_not_b64": un64(func(a uint64) uint64 { return ^a }, true),
	"s_wqm_b32": un32(func(a uint32) uint32 { return uint32(wqm(uint64(a), 32)) }, true),
	"s_wqm_b64": un64(func(a uint64) uint64 { return wqm(a, 64) }, true),
	// "D.u = S0.u[0:31] (reverse bits)."
	"s_brev_b32": un32(bits.Reverse32, false),
	"s_brev_b64": un64(bits.Reverse64, false),
	// "D.i = CountZeroBits(S0.u). SCC = 1 if result is non-zero."
	"s_bcnt0_i32_b32": un32(func(a uint32) uint32 { return uint32(32 - bits.OnesCount32(a)) }, true),
	"s_bcnt0_i32_b64": {2, 1, func(a, _ uint64, _ *State) (uint64, uint32, bool, bool) {
		d := uint64(64 - bits.OnesCount64(a))
		return d, nz(d), true, true
	}},
	"s_bcnt1_i32_b32": un32(func(a uint32) uint32 { return uint32(bits.OnesCount32(a)) }, true),
	"s_bcnt1_i32_b64": {2, 1, func(a, _ uint64, _ *State) (uint64, uint32, bool, bool) {
		d := uint64(bits.OnesCount64(a))
		return d, nz(d), true, true
	}},
	// "D.i = FindFirstZero(S0.u) from LSB; if no zeros, return -1."
	"s_ff0_i32_b32": un32(func(a uint32) uint32 {
		if a == 0xffffffff {
			return 0xffffffff
		}
		return uint32(bits.TrailingZeros32(^a))
	}, false),
	"s_ff0_i32_b64": {2, 1, func(a, _ uint64, _ *State) (uint64, uint32, bool, bool) {
		if a == ^uint64(0) {
			return 0xffffffff, 0, false, true
		}
		return uint64(bits.TrailingZeros64(^a)), 0, false, true
	}},
	"s_ff1_i32_b32": un32(func(a uint32) uint32 {
		if a == 0 {
			return 0xffffffff
		}
		return uint32(bits.TrailingZeros32(a))
	}, false),
	"s_ff1_i32_b64": {2, 1, func(a, _ uint64, _ *State) (uint64, uint32, bool, bool) {
		if a == 0 {
			return 0xffffffff, 0, false, true
		}
		return uint64(bits.TrailingZeros64(a)), 0, false, true
	}},
	// "D.i = FindFirstOne(S0.u) from MSB; if no ones, return -1."
	"s_flbit_i32_b32": un32(func(a uint32) uint32 {
		if a == 0 {
			return 0xffffffff
		}
		return uint32(bits.LeadingZeros32(a))
	}, false),
	"s_flbit_i32_b64": {2, 1, func(a, _ uint64, _ *State) (uint64, uint32, bool, bool) {
		if a == 0 {
			return 0xffffffff, 0, false, true
		}
		return uint64(bits.LeadingZeros64(a)), 0, false, true
	}},
	// table 5.5: "Count how many bits in a row (from MSB to LSB) are the same
	// as the sign bit. Return -1 if the input is zero or all 1's"
	"s_flbit_i32": un32(func(a uint32) uint32 {
		if a == 0 || a == 0xffffffff {
			return 0xffffffff
		}
		if int32(a) < 0 {
			a = ^a
		}
		return uint32(bits.LeadingZeros32(a))
	}, false),
	"s_flbit_i32_i64": {2, 1, func(a, _ uint64, _ *State) (uint64, uint32, bool, bool) {
		if a == 0 || a == ^uint64(0) {
			return 0xffffffff, 0, false, true
		}
		if int64(a) < 0 {
			a = ^a
		}
		return uint64(bits.LeadingZeros64(a)), 0, false, true
	}},
	// "D.i = signext(S0.i[7:0])."
	"s_sext_i32_i8":  un32(func(a uint32) uint32 { return uint32(int32(int8(a))) }, false),
	"s_sext_i32_i16": un32(func(a uint32) uint32 { return uint32(int32(int16(a))) }, false),
	// "D.u[S0.u[4:0]] = 0."
	"s_bitset0_b32": {1, 1, func(a, d uint64, _ *State) (uint64, uint32, bool, bool) {
		return d &^ (1 << (a & 31)) & 0xffffffff, 0, false, true
	}},
	"s_bitset0_b64": {1, 2, func(a, d uint64, _ *State) (uint64, uint32, bool, bool) {
		return d &^ (1 << (a & 63)), 0, false, true
	}},
	"s_bitset1_b32": {1, 1, func(a, d uint64, _ *State) (uint64, uint32, bool, bool) {
		return (d | 1<<(a&31)) & 0xffffffff, 0, false, true
	}},
	"s_bitset1_b64": {1, 2, func(a, d uint64, _ *State) (uint64, uint32, bool, bool) {
		return d | 1<<(a&63), 0, false, true
	}},
	// "D.u = PC + 4; destination receives the byte address of the next instruction."
	"s_getpc_b64": {0, 2, func(_, _ uint64, st *State) (uint64, uint32, bool, bool) { return st.PC, 0, false, true }},
	// "PC = S0.u; S0.u is a byte address of the instruction to jump to."
	"s_setpc_b64": {2, 0, func(a, _ uint64, st *State) (uint64, uint32, bool, bool) { st.PC = a; return 0, 0, false, false }},
	// "D.u = PC + 4; PC = S0.u."
	"s_swappc_b64": {2, 2, func(a, _ uint64, st *State) (uint64, uint32, bool, bool) {
		old := st.PC
		st.PC = a
		return old, 0, false, true
	}},
	"s_and_saveexec_b64":   saveexec(func(s0, e uint64) uint64 { return s0 & e }),
	"s_or_saveexec_b64":    saveexec(func(s0, e uint64) uint64 { return s0 | e }),
	"s_xor_saveexec_b64":   saveexec(func(s0, e uint64) uint64 { return s0 ^ e }),
	"s_andn2_saveexec_b64": saveexec(func(s0, e uint64) uint64 { return s0 &^ e }),
	"s_orn2_saveexec_b64":  saveexec(func(s0, e uint64) uint64 { return s0 | ^e }),
	"s_nand_saveexec_b64":  saveexec(func(s0, e uint64) uint64 { return ^(s0 & e) }),
	"s_nor_saveexec_b64":   saveexec(func(s0, e uint64) uint64 { return ^(s0 | e) }),
	"s_xnor_saveexec_b64":  saveexec(func(s0, e uint64) uint64 { return ^(s0 ^ e) }),
	// "D.u = QuadMask(S0.u). D[0] = OR(S0[3:0]), D[1] = OR(S0[7:4]) .... SCC = 1 if result is non-zero."
	"s_quadmask_b32": un32(func(a uint32) uint32 { return uint32(quadmask(uint64(a), 32)) }, true),
	"s_quadmask_b64": un64(func(a uint64) uint64 { return quadmask(a, 64) }, true),
	// "D.i = abs(S0.i). SCC=1 if result is non-zero."
	"s_abs_i32": un32(func(a uint32) uint32 {
		if int32(a) < 0 {
			return -a
		}
		return a
	}, true),
}

func execSOP1(name string, d *gcnasm.Desc, st *State, out *Outcome) {
	sp, ok := sop1Table[name]
	if !ok {
		bail("no reference for SOP1 %s", name)
	}
	var a, dOld uint64
	if sp.w0 > 0 {
		a = st.readS(d.Src0, sp.w0)
	}
	if strings.HasPrefix(name, "s_bitset") {
		dOld = st.readS(d.Dst, sp.wd)
	}
	if strings.HasSuffix(name, "_saveexec_b64") && d.Dst.Kind == gcnasm.KSpecial && d.Dst.Index == gcnasm.CodeEXECLo {
		bail("saveexec with EXEC as destination: order of the two writes not specified")
	}
	r, scc, sets, writes := sp.f(a, dOld, st)
	if writes && sp.wd > 0 {
		st.writeS(d.Dst, sp.wd, r)
	}
	if sets {
		st.SCC = scc
	}
}

// ---------------------------------------------------------------------------
// SOPC: "SCC = (S0 <cond> S1)"

func cmpI(op string, a, b int64) bool {
	switch op {
	case "eq":
		return a == b
	case "lg", "ne":
		return a != b
	case "gt":
		return a > b
	case "ge":
		return a >= b
	case "lt":
		return a < b
	case "le":
		return a <= b
	case "f":
		return false
	case "t", "tru":
		return true
	}
	bail("unknown compare %q", op)
	return false
}

func cmpU(op string, a, b uint64) bool {
	switch op {
	case "eq":
		return a == b
	case "lg", "ne":
		return a != b
	case "gt":
		return a > b
	case "ge":
		return a >= b
	case "lt":
		return a < b
	case "le":
		return a <= b
	case "f":
		return false
	case "t", "tru":
		return true
	}
	bail("unknown compare %q", op)
	return false
}

func execSOPC(name string, d *gcnasm.Desc, st *State, out *Outcome) {
	p := strings.Split(name, "_")
	switch {
	case len(p) == 4 && p[1] == "cmp": // s_cmp_<op>_<ty>
		switch p[3] {
		case "i32":
			a, b := st.ssrc32(d.Src0), st.ssrc32(d.Src1)
			st.SCC = bool32(cmpI(p[2], int64(int32(a)), int64(int32(b))))
		case "u32":
			a, b := st.ssrc32(d.Src0), st.ssrc32(d.Src1)
			st.SCC = bool32(cmpU(p[2], uint64(a), uint64(b)))
		case "u64":
			a, b := st.ssrc64(d.Src0, kBits), st.ssrc64(d.Src1, kBits)
			st.SCC = bool32(cmpU(p[2], a, b))
		default:
			bail("no reference for SOPC %s", name)
		}
	case len(p) == 3 && (p[1] == "bitcmp0" || p[1] == "bitcmp1"):
		// "SCC = (S0.u[S1.u[4:0]] == 0)"
		var bit uint64
		if p[2] == "b64" {
			bit = st.ssrc64(d.Src0, kBits) >> (st.ssrc32(d.Src1) & 63) & 1
		} else {
			bit = uint64(st.ssrc32(d.Src0)>>(st.ssrc32(d.Src1)&31)) & 1
		}
		if p[1] == "bitcmp0" {
			st.SCC = bool32(bit == 0)
		} else {
			st.SCC = bool32(bit == 1)
		}
	default:
		bail("no reference for SOPC %s", name)
	}
}

// ---------------------------------------------------------------------------
// SOPK

func execSOPK(name string, d *gcnasm.Desc, st *State, out *Outcome) {
	simm := int64(int16(d.SImm16))
	zimm := uint64(d.SImm16)
	p := strings.Split(name, "_")
	switch {
	case name == "s_movk_i32": // "D.i = signext(SIMM16)."
		st.sdst32(d.Dst, uint32(simm))
	case name == "s_cmovk_i32": // "if (SCC) D.i = signext(SIMM16); else NOP."
		if st.SCC != 0 {
			st.sdst32(d.Dst, uint32(simm))
		}
	case len(p) == 4 && p[1] == "cmpk":
		dv := st.ssrc32(d.Dst)
		switch p[3] {
		case "i32": // "SCC = (D.i == signext(SIMM16))."
			st.SCC = bool32(cmpI(p[2], int64(int32(dv)), simm))
		case "u32": // "SCC = (D.u == SIMM16)." zero-extended
			st.SCC = bool32(cmpU(p[2], uint64(dv), zimm))
		default:
			bail("no reference for SOPK %s", name)
		}
	case name == "s_addk_i32": // "D.i = D.i + signext(SIMM16). SCC = signed overflow."
		x := int64(int32(st.ssrc32(d.Dst))) + simm
		st.sdst32(d.Dst, uint32(x))
		st.SCC = bool32(x > 0x7fffffff || x < -0x80000000)
	case name == "s_mulk_i32":
		// 12.2: "D.i = D.i * signext(SIMM16). SCC = overflow."; table 5.2: "S_MULK_I32 SOPK n
		// D = D * simm16. Return low 32bits." The two places disagree about SCC: not judged.
		x := int64(int32(st.ssrc32(d.Dst))) * simm
		st.sdst32(d.Dst, uint32(x))
		out.loose(CellSCC, Loose{Mask: 1, Why: "S_MULK_I32: chapter 12 says SCC = overflow, table 5.2 says SCC is not written"})
	default:
		bail("no reference for SOPK %s", name)
	}
}

// ---------------------------------------------------------------------------
// SOPP: "if(cond) then PC = PC + signext(SIMM16 * 4) + 4; else NOP."

func execSOPP(name string, d *gcnasm.Desc, st *State, out *Outcome) {
	take := false
	switch name {
	case "s_nop", "s_waitcnt":
		return // no architectural state change visible here
	case "s_branch":
		take = true
	case "s_cbranch_scc0":
		take = st.SCC == 0
	case "s_cbranch_scc1":
		take = st.SCC == 1
	case "s_cbranch_vccz":
		take = st.VCC == 0
	case "s_cbranch_vccnz":
		take = st.VCC != 0
	case "s_cbranch_execz":
		take = st.EXEC == 0
	case "s_cbranch_execnz":
		take = st.EXEC != 0
	default:
		bail("no reference for SOPP %s (wave control, not ALU state)", name)
	}
	if take {
		st.PC = uint64(int64(st.PC) + int64(int16(d.SImm16))*4)
	}
}
