package isaspec

import (
	"math"
	"testing"

	"verifharness/vlib/gcnasm"
)

// Hand-computed examples (values worked out on paper from the manual's
// formulas) that pin the reference itself.

func st() *State {
	s := NewState(256, 1)
	s.EXEC = ^uint64(0)
	return s
}

func sop2(name string, a, b uint32, scc uint32) (uint32, uint32) {
	s := st()
	s.SGPR[1], s.SGPR[2], s.SCC = a, b, scc
	d := gcnasm.MkSOP2(gcnasm.MustOpcode(gcnasm.GCN3, gcnasm.SOP2, name), gcnasm.S(0), gcnasm.S(1), gcnasm.S(2))
	o := Exec(&d, s)
	if !o.Ref {
		panic(name + ": " + o.Why)
	}
	return s.SGPR[0], s.SCC
}

func TestScalar(t *testing.T) {
	cases := []struct {
		name      string
		a, b, scc uint32
		d, sccOut uint32
	}{
		{"s_add_u32", 0xffffffff, 1, 0, 0, 1},
		{"s_add_u32", 0xfffffffe, 1, 1, 0xffffffff, 0},
		{"s_add_i32", 0x7fffffff, 1, 0, 0x80000000, 1},          // signed overflow
		{"s_add_i32", 0xffffffff, 1, 1, 0, 0},                   // unsigned carry but no signed overflow
		{"s_add_i32", 0x80000000, 0xffffffff, 0, 0x7fffffff, 1}, // INT_MIN + -1
		{"s_addc_u32", 0xffffffff, 0, 1, 0, 1},
		{"s_addc_u32", 0xfffffffe, 0, 1, 0xffffffff, 0},
		{"s_sub_u32", 0, 1, 0, 0xffffffff, 1},
		{"s_sub_u32", 5, 5, 1, 0, 0},
		{"s_subb_u32", 5, 4, 1, 0, 0},
		{"s_subb_u32", 5, 5, 1, 0xffffffff, 1},
		{"s_min_i32", 0xffffffff, 1, 0, 0xffffffff, 1},
		{"s_min_u32", 0xffffffff, 1, 1, 1, 0},
		{"s_max_u32", 3, 3, 1, 3, 0},
		{"s_lshl_b32", 1, 33, 0, 2, 1},
		{"s_lshr_b32", 0x80000000, 63, 0, 1, 1},
		{"s_ashr_i32", 0x80000000, 32, 1, 0x80000000, 1},
		{"s_ashr_i32", 0x80000000, 31, 0, 0xffffffff, 1},
		{"s_bfm_b32", 4, 8, 1, 0xf00, 1},
		{"s_mul_i32", 0x10000, 0x10000, 1, 0, 1},
		{"s_bfe_u32", 0x12345678, 8 | 8<<16, 0, 0x56, 1},
		{"s_bfe_i32", 0x0000ff00, 8 | 8<<16, 0, 0xffffffff, 1},
		{"s_bfe_i32", 0x00007f00, 8 | 8<<16, 1, 0x7f, 1},
		{"s_bfe_u32", 0xffffffff, 0, 1, 0, 0},
		{"s_andn2_b32", 0xff, 0x0f, 0, 0xf0, 1},
	}
	for _, c := range cases {
		d, scc := sop2(c.name, c.a, c.b, c.scc)
		if d != c.d || scc != c.sccOut {
			t.Errorf("%s(0x%x,0x%x,scc=%d) = 0x%x scc=%d, want 0x%x scc=%d", c.name, c.a, c.b, c.scc, d, scc, c.d, c.sccOut)
		}
	}
}

func TestBranch(t *testing.T) {
	s := st()
	s.PC, s.SCC = 0x1004, 1 // instruction at 0x1000, PC already advanced
	d := gcnasm.MkSOPP(gcnasm.OpSCbranchSCC1, 0xfffe)
	Exec(&d, s)
	if s.PC != 0x1004-8 {
		t.Errorf("taken branch: pc=0x%x", s.PC)
	}
	s.PC, s.SCC = 0x1004, 0
	Exec(&d, s)
	if s.PC != 0x1004 {
		t.Errorf("untaken branch: pc=0x%x", s.PC)
	}
}

func TestVectorCarryAndExec(t *testing.T) {
	s := st()
	s.EXEC = 0b0111
	s.VCC = ^uint64(0)
	for ln, p := range [][2]uint32{{0xffffffff, 0}, {0xffffffff, 1}, {0x80000000, 0x80000000}, {1, 1}} {
		s.SetV(ln, 1, p[0])
		s.SetV(ln, 2, p[1])
		s.SetV(ln, 3, 0xdead0000+uint32(ln))
	}
	d := gcnasm.MkVOP2(gcnasm.MustOpcode(gcnasm.GCN3, gcnasm.VOP2, "v_add_u32"), gcnasm.V(3), gcnasm.V(1), gcnasm.V(2))
	o := Exec(&d, s)
	if !o.Ref {
		t.Fatal(o.Why)
	}
	want := []uint32{0xffffffff, 0, 0, 0xdead0003}
	for ln, w := range want {
		if s.V(ln, 3) != w {
			t.Errorf("lane %d: 0x%x want 0x%x", ln, s.V(ln, 3), w)
		}
	}
	if s.VCC != 0b0110 { // exactly 0xffffffff does not carry; inactive lanes are written as 0
		t.Errorf("vcc=0x%x", s.VCC)
	}
}

func TestFloat(t *testing.T) {
	one, ulp := uint32(0x3f800000), uint32(0x3f800001)
	if r := addF32(one, 0x33800000); r.v != one || r.k != fkExact { // 1 + 2^-24: tie -> even
		t.Errorf("tie: %x", r.v)
	}
	if r := addF32(ulp, 0x33800000); r.v != 0x3f800002 { // (1+ulp) + 2^-24: tie -> even (up)
		t.Errorf("tie up: %x", r.v)
	}
	if r := addF32(one, 0x33800001); r.v != ulp {
		t.Errorf("above tie: %x", r.v)
	}
	if r := mulF32(0x7f7fffff, 0x40000000); r.v != 0x7f800000 {
		t.Errorf("overflow: %x", r.v)
	}
	if r := mulF32(0x7f800000, 0); r.k != fkNaN {
		t.Errorf("inf*0 must be NaN")
	}
	// fused vs unfused: (1+2^-23)*(1-2^-23) - 1 = -2^-46 exactly; unfused gives 0
	a, b, c := uint32(0x3f800001), uint32(0x3f7ffffe), uint32(0xbf800000)
	if r := fmaF32(a, b, c); math.Float32frombits(r.v) != float32(-math.Pow(2, -46)) {
		t.Errorf("fma: %x", r.v)
	}
	if r := madF32(a, b, c); r.v&0x7fffffff != 0 {
		t.Errorf("mad must round the product first: %x", r.v)
	}
	// max*max + -inf = -inf when fused
	if r := fmaF64(0x7fefffffffffffff, 0x7fefffffffffffff, 0xfff0000000000000); r.v != 0xfff0000000000000 {
		t.Errorf("fma64: %x", r.v)
	}
	var l lane
	minmaxF32(&l, 0x7fc00000, one, false)
	if uint32(l.d) != one || l.anyNaN {
		t.Errorf("min(qNaN,1) = %x", l.d)
	}
	l = lane{}
	minmaxF32(&l, 0x7f800001, one, true)
	if uint32(l.d) != one || !l.anyNaN {
		t.Errorf("max(sNaN,1): value or any NaN")
	}
}

func TestCompare(t *testing.T) {
	s := st()
	s.EXEC = 0b1011
	vals := [][2]uint32{{0x3f800000, 0x40000000}, {0x7fc00000, 0}, {0, 0}, {0x40000000, 0x3f800000}}
	for ln, p := range vals {
		s.SetV(ln, 1, p[0])
		s.SetV(ln, 2, p[1])
	}
	d := gcnasm.MkVOPC(gcnasm.MustOpcode(gcnasm.GCN3, gcnasm.VOPC, "v_cmp_lg_f32"), gcnasm.V(1), gcnasm.V(2))
	Exec(&d, s)
	if s.VCC != 0b1001 { // lane 1 unordered -> false; lane 2 inactive -> 0
		t.Errorf("v_cmp_lg_f32 vcc=%b", s.VCC)
	}
	d = gcnasm.MkVOPC(gcnasm.MustOpcode(gcnasm.GCN3, gcnasm.VOPC, "v_cmpx_nlt_f32"), gcnasm.V(1), gcnasm.V(2))
	s.EXEC = 0b1111
	Exec(&d, s)
	if s.VCC != 0b1110 || s.EXEC != 0b1110 {
		t.Errorf("v_cmpx_nlt_f32 vcc=%b exec=%b", s.VCC, s.EXEC)
	}
}

func TestMemory(t *testing.T) {
	s := st()
	s.EXEC = 1
	s.SetV(0, 1, 16)
	copy(s.LDS[16+8:], []byte{1, 2, 3, 4, 5, 6, 7, 8})
	d := gcnasm.DSRead(gcnasm.MustOpcode(gcnasm.GCN3, gcnasm.DS, "ds_read_b64"), gcnasm.VRange(2, 2), gcnasm.V(1), 8)
	if o := Exec(&d, s); !o.Ref {
		t.Fatal(o.Why)
	}
	if s.V(0, 2) != 0x04030201 || s.V(0, 3) != 0x08070605 {
		t.Errorf("ds_read_b64 with offset: %x %x", s.V(0, 2), s.V(0, 3))
	}
	s.SGPR[4], s.SGPR[5] = 0x1003, 0
	s.Mem.Write(0x1010, []byte{0xaa, 0xbb, 0xcc, 0xdd})
	d = gcnasm.SMEMLoadImm(gcnasm.OpSLoadDword, gcnasm.S(8), gcnasm.SRange(4, 2), 0x10)
	if o := Exec(&d, s); !o.Ref {
		t.Fatal(o.Why)
	}
	if s.SGPR[8] != 0xddccbbaa { // (0x1003 + 0x10) & ~3 = 0x1010
		t.Errorf("s_load_dword aligned address: %x", s.SGPR[8])
	}
}
