package isaspec

import (
	"math"
	"math/bits"

	"verifharness/vlib/gcnasm"
)

// Vector ALU (GCN3 manual chapter 6, 12.6-12.11). One table keyed by the
// manual mnemonic serves the VOP2, VOP1, VOP3a and VOP3b encodings; the
// encodings differ only in where operands, carries and modifiers come from.

// lane is the per-thread view of one VALU instruction.
type lane struct {
	s    [3]uint64 // sources after ABS/NEG
	d0   uint64    // destination before the instruction (V_MAC, V_FMAC)
	cin  uint32    // carry-in bit / V_CNDMASK select bit of this thread
	id   int       // thread id within the wave
	exec uint64

	d      uint64   // result
	k      fk       // classification of a float result
	cout   uint32   // carry-out bit
	alt    []uint64 // other complete results that conform
	anyNaN bool     // any NaN conforms as well (sNaN operand of min/max)
	mask   uint64   // result bits that are not judged
	why    string
}

type vspec struct {
	w    [3]int // source widths in dwords (0 = no such source)
	k    [3]vk
	dw   int // destination width in dwords
	dk   vk  // kF32/kF64: float result (OMOD/CLAMP apply); kBits: integer
	cin  bool
	cout bool
	sel  bool // V_CNDMASK_B32
	rd   bool // reads the old destination
	f    func(l *lane)
}

func u32(x uint64) uint32 { return uint32(x) }
func i32(x uint64) int32  { return int32(uint32(x)) }

func bin32(f func(a, b uint32) uint32) vspec {
	return vspec{w: [3]int{1, 1}, dw: 1, f: func(l *lane) { l.d = uint64(f(u32(l.s[0]), u32(l.s[1]))) }}
}

func tri32(f func(a, b, c uint32) uint32) vspec {
	return vspec{w: [3]int{1, 1, 1}, dw: 1, f: func(l *lane) { l.d = uint64(f(u32(l.s[0]), u32(l.s[1]), u32(l.s[2]))) }}
}

func un32v(f func(a uint32) uint32) vspec {
	return vspec{w: [3]int{1}, dw: 1, f: func(l *lane) { l.d = uint64(f(u32(l.s[0]))) }}
}

func (l *lane) set32(r fr32) { l.d, l.k = uint64(r.v), r.k }
func (l *lane) set64(r fr64) { l.d, l.k = r.v, r.k }

func fbin32(f func(a, b uint32) fr32) vspec {
	return vspec{w: [3]int{1, 1}, k: [3]vk{kF32, kF32}, dw: 1, dk: kF32, f: func(l *lane) { l.set32(f(u32(l.s[0]), u32(l.s[1]))) }}
}

func fbin64(f func(a, b uint64) fr64) vspec {
	return vspec{w: [3]int{2, 2}, k: [3]vk{kF64, kF64}, dw: 2, dk: kF64, f: func(l *lane) { l.set64(f(l.s[0], l.s[1])) }}
}

func sext24(x uint32) int64  { return int64(int32(x<<8) >> 8) }
func zext24(x uint32) uint64 { return uint64(x & 0xffffff) }

func imin(a, b int32) int32 {
	if a < b {
		return a
	}
	return b
}
func imax(a, b int32) int32 {
	if a > b {
		return a
	}
	return b
}
func umin(a, b uint32) uint32 {
	if a < b {
		return a
	}
	return b
}
func umax(a, b uint32) uint32 {
	if a > b {
		return a
	}
	return b
}

// minmaxF32 transcribes V_MIN_F32 / V_MAX_F32 (12.6) for both MODE.ieee
// settings; where the two settings (or the literal pseudo code and the
// evident intent, for +0/-0) differ, every candidate conforms.
func minmaxF32(l *lane, a, b uint32, isMax bool) {
	switch {
	case isNaN32(a) && isNaN32(b):
		l.set32(fr32{qnan32, fkNaN})
		return
	case isNaN32(a) || isNaN32(b):
		other, nan := b, a
		if isNaN32(b) {
			other, nan = a, b
		}
		l.d, l.k = uint64(other), fkExact
		if isSNaN32(nan) {
			l.anyNaN = true // ieee_mode: result = quiet(sNaN)
			l.why = "min/max with sNaN: MODE.ieee decides"
		}
		if isDen32(other) {
			l.k = fkMode
		}
		return
	}
	if anyDen32(a, b) {
		l.k = fkMode
		return
	}
	if isZero32(a) && isZero32(b) && a != b {
		l.d = uint64(b)
		l.alt = []uint64{uint64(a)}
		l.why = "min/max of +0 and -0"
		return
	}
	fa, fb := f32(a), f32(b)
	pickA := fa < fb
	if isMax {
		pickA = fa > fb
	}
	if pickA {
		l.d = uint64(a)
	} else {
		l.d = uint64(b)
	}
}

func minmaxF64(l *lane, a, b uint64, isMax bool) {
	switch {
	case isNaN64(a) && isNaN64(b):
		l.set64(fr64{qnan64, fkNaN})
		return
	case isNaN64(a) || isNaN64(b):
		other, nan := b, a
		if isNaN64(b) {
			other, nan = a, b
		}
		l.d, l.k = other, fkExact
		if isSNaN64(nan) {
			l.anyNaN = true
		}
		if isDen64(other) {
			l.k = fkMode
		}
		return
	}
	if anyDen64(a, b) {
		l.k = fkMode
		return
	}
	if isZero64(a) && isZero64(b) && a != b {
		l.d = b
		l.alt = []uint64{a}
		return
	}
	pickA := f64(a) < f64(b)
	if isMax {
		pickA = f64(a) > f64(b)
	}
	if pickA {
		l.d = a
	} else {
		l.d = b
	}
}

// three-operand float min/max/med: "DX10 NaN handling": judged exactly only
// without NaN, denormal and mixed-zero operands.
func f3ok(l *lane) bool {
	a, b, c := u32(l.s[0]), u32(l.s[1]), u32(l.s[2])
	if anyNaN32(a, b, c) || anyDen32(a, b, c) {
		l.k = fkMode
		return false
	}
	z := 0
	for _, x := range []uint32{a, b, c} {
		if isZero32(x) {
			z++
		}
	}
	if z >= 2 && (a|b|c)&0x80000000 != 0 {
		l.k = fkMode // several zeros of possibly different sign
		return false
	}
	return true
}

func cvtF32toI32(x uint32, l *lane) {
	// V_CVT_I32_F32: truncation; "saturate to max_int or -max_int"; NaN -> 0
	switch {
	case isNaN32(x):
		l.d = 0
	default:
		f := float64(f32(x))
		t := math.Trunc(f)
		switch {
		case t >= 2147483648.0:
			l.d = 0x7fffffff
		case t <= -2147483648.0:
			l.d = 0x80000000
			if t < -2147483648.0 {
				l.alt = []uint64{0x80000001} // the text literally says "-max_int"
			}
		default:
			l.d = uint64(uint32(int32(t)))
		}
	}
}

func cvtF32toU32(x uint32, l *lane) {
	// V_CVT_U32_F32: truncation; "-inf & NaN & 0 & -0 -> 0, Inf -> max_uint"
	switch {
	case isNaN32(x):
		l.d = 0
	default:
		t := math.Trunc(float64(f32(x)))
		switch {
		case t <= 0:
			l.d = 0
		case t >= 4294967296.0:
			l.d = 0xffffffff
		default:
			l.d = uint64(uint32(t))
		}
	}
}

func round1f32(name string) vspec {
	return vspec{w: [3]int{1}, k: [3]vk{kF32}, dw: 1, dk: kF32, f: func(l *lane) {
		x := u32(l.s[0])
		if isNaN32(x) {
			l.set32(fr32{qnan32, fkNaN})
			return
		}
		f := float64(f32(x))
		var r float64
		switch name {
		case "trunc":
			r = math.Trunc(f)
		case "rndne":
			r = math.RoundToEven(f)
		case "floor":
			r = math.Floor(f)
		case "ceil":
			r = math.Ceil(f)
		}
		if isDen32(x) && (name == "floor" || name == "ceil") {
			l.k = fkMode
			return
		}
		rb := b32(float32(r)) // math.Trunc/Floor/Ceil/RoundToEven keep the operand's sign on a zero result, as IEEE roundToIntegral does
		l.d = uint64(rb)
	}}
}

var valuTable map[string]vspec

func init() {
	valuTable = map[string]vspec{
		// ---- moves / bit ops (VOP1)
		"v_nop":       {f: func(l *lane) {}},
		"v_mov_b32":   un32v(func(a uint32) uint32 { return a }),
		"v_not_b32":   un32v(func(a uint32) uint32 { return ^a }),
		"v_bfrev_b32": un32v(bits.Reverse32),
		// "D.u = position of first 1 in S0 from MSB; D=0xFFFFFFFF if S0==0."
		"v_ffbh_u32": un32v(func(a uint32) uint32 {
			if a == 0 {
				return 0xffffffff
			}
			return uint32(bits.LeadingZeros32(a))
		}),
		"v_ffbl_b32": un32v(func(a uint32) uint32 {
			if a == 0 {
				return 0xffffffff
			}
			return uint32(bits.TrailingZeros32(a))
		}),
		// "position of first bit different from sign bit in S0 from MSB; D=0xFFFFFFFF if S0==0 or 0xFFFFFFFF."
		"v_ffbh_i32": un32v(func(a uint32) uint32 {
			if a == 0 || a == 0xffffffff {
				return 0xffffffff
			}
			if int32(a) < 0 {
				a = ^a
			}
			return uint32(bits.LeadingZeros32(a))
		}),
		// ---- conversions (VOP1)
		"v_cvt_f32_i32": {w: [3]int{1}, dw: 1, f: func(l *lane) { l.d = uint64(b32(float32(i32(l.s[0])))) }},
		"v_cvt_f32_u32": {w: [3]int{1}, dw: 1, f: func(l *lane) { l.d = uint64(b32(float32(u32(l.s[0])))) }},
		"v_cvt_f64_i32": {w: [3]int{1}, dw: 2, f: func(l *lane) { l.d = b64(float64(i32(l.s[0]))) }},
		"v_cvt_f64_u32": {w: [3]int{1}, dw: 2, f: func(l *lane) { l.d = b64(float64(u32(l.s[0]))) }},
		"v_cvt_i32_f32": {w: [3]int{1}, k: [3]vk{kF32}, dw: 1, f: func(l *lane) { cvtF32toI32(u32(l.s[0]), l) }},
		"v_cvt_u32_f32": {w: [3]int{1}, k: [3]vk{kF32}, dw: 1, f: func(l *lane) { cvtF32toU32(u32(l.s[0]), l) }},
		"v_cvt_i32_f64": {w: [3]int{2}, k: [3]vk{kF64}, dw: 1, f: func(l *lane) {
			x := l.s[0]
			if isNaN64(x) {
				l.d = 0
				return
			}
			t := math.Trunc(f64(x))
			switch {
			case t >= 2147483648.0:
				l.d = 0x7fffffff
			case t <= -2147483648.0:
				l.d = 0x80000000
				if t < -2147483648.0 {
					l.alt = []uint64{0x80000001}
				}
			default:
				l.d = uint64(uint32(int32(t)))
			}
		}},
		"v_cvt_u32_f64": {w: [3]int{2}, k: [3]vk{kF64}, dw: 1, f: func(l *lane) {
			x := l.s[0]
			if isNaN64(x) {
				l.d = 0
				return
			}
			t := math.Trunc(f64(x))
			switch {
			case t <= 0:
				l.d = 0
			case t >= 4294967296.0:
				l.d = 0xffffffff
			default:
				l.d = uint64(uint32(t))
			}
		}},
		// "D.f = (float)S0.d": round to nearest even
		"v_cvt_f32_f64": {w: [3]int{2}, k: [3]vk{kF64}, dw: 1, dk: kF32, f: func(l *lane) {
			x := l.s[0]
			switch {
			case isNaN64(x):
				l.set32(fr32{qnan32, fkNaN})
			case isDen64(x):
				l.k = fkMode
			default:
				l.set32(round32(f64(x)))
			}
		}},
		"v_cvt_f64_f32": {w: [3]int{1}, k: [3]vk{kF32}, dw: 2, dk: kF64, f: func(l *lane) {
			x := u32(l.s[0])
			switch {
			case isNaN32(x):
				l.set64(fr64{qnan64, fkNaN})
			case isDen32(x):
				l.k = fkMode
			default:
				l.d = b64(float64(f32(x)))
			}
		}},
		"v_cvt_f32_ubyte0": {w: [3]int{1}, dw: 1, f: func(l *lane) { l.d = uint64(b32(float32(l.s[0] & 0xff))) }},
		"v_cvt_f32_ubyte1": {w: [3]int{1}, dw: 1, f: func(l *lane) { l.d = uint64(b32(float32(l.s[0] >> 8 & 0xff))) }},
		"v_cvt_f32_ubyte2": {w: [3]int{1}, dw: 1, f: func(l *lane) { l.d = uint64(b32(float32(l.s[0] >> 16 & 0xff))) }},
		"v_cvt_f32_ubyte3": {w: [3]int{1}, dw: 1, f: func(l *lane) { l.d = uint64(b32(float32(l.s[0] >> 24 & 0xff))) }},
		"v_trunc_f32":      round1f32("trunc"),
		"v_rndne_f32":      round1f32("rndne"),
		"v_floor_f32":      round1f32("floor"),
		"v_ceil_f32":       round1f32("ceil"),

		// ---- VOP2 integer
		"v_and_b32": bin32(func(a, b uint32) uint32 { return a & b }),
		"v_or_b32":  bin32(func(a, b uint32) uint32 { return a | b }),
		"v_xor_b32": bin32(func(a, b uint32) uint32 { return a ^ b }),
		// "D.u = S1.u >> S0.u[4:0]."
		"v_lshrrev_b32": bin32(func(a, b uint32) uint32 { return b >> (a & 31) }),
		// "D.i = signext(S1.i) >> S0.i[4:0]."
		"v_ashrrev_i32": bin32(func(a, b uint32) uint32 { return uint32(int32(b) >> (a & 31)) }),
		// "D.u = S1.u << S0.u[4:0]."
		"v_lshlrev_b32": bin32(func(a, b uint32) uint32 { return b << (a & 31) }),
		"v_min_i32":     bin32(func(a, b uint32) uint32 { return uint32(imin(int32(a), int32(b))) }),
		"v_max_i32":     bin32(func(a, b uint32) uint32 { return uint32(imax(int32(a), int32(b))) }),
		"v_min_u32":     bin32(umin),
		"v_max_u32":     bin32(umax),
		// "D.i = S0.i[23:0] * S1.i[23:0]." (low 32 bits of the 48-bit product)
		"v_mul_i32_i24": bin32(func(a, b uint32) uint32 { return uint32(sext24(a) * sext24(b)) }),
		"v_mul_u32_u24": bin32(func(a, b uint32) uint32 { return uint32(zext24(a) * zext24(b)) }),
		// "D.i = (S0.i[23:0] * S1.i[23:0])>>32."
		"v_mul_hi_i32_i24": bin32(func(a, b uint32) uint32 { return uint32((sext24(a) * sext24(b)) >> 32) }),
		"v_mul_hi_u32_u24": bin32(func(a, b uint32) uint32 { return uint32((zext24(a) * zext24(b)) >> 32) }),
		// V_CNDMASK_B32: "D.u = VCC[i] ? S1.u : S0.u (i = threadID in wave); VOP3: specify VCC as a scalar GPR in S2."
		"v_cndmask_b32": {w: [3]int{1, 1}, dw: 1, sel: true, f: func(l *lane) {
			if l.cin != 0 {
				l.d = l.s[1] & 0xffffffff
			} else {
				l.d = l.s[0] & 0xffffffff
			}
		}},
		// 16-bit integer ops: the manual defines D[15:0] only; D[31:16] is not judged.
		"v_add_u16":     {w: [3]int{1, 1}, dw: 1, f: func(l *lane) { l.d = (l.s[0] + l.s[1]) & 0xffff; l.mask = 0xffff0000 }},
		"v_sub_u16":     {w: [3]int{1, 1}, dw: 1, f: func(l *lane) { l.d = (l.s[0] - l.s[1]) & 0xffff; l.mask = 0xffff0000 }},
		"v_subrev_u16":  {w: [3]int{1, 1}, dw: 1, f: func(l *lane) { l.d = (l.s[1] - l.s[0]) & 0xffff; l.mask = 0xffff0000 }},
		"v_mul_lo_u16":  {w: [3]int{1, 1}, dw: 1, f: func(l *lane) { l.d = (l.s[0] & 0xffff) * (l.s[1] & 0xffff) & 0xffff; l.mask = 0xffff0000 }},
		"v_lshlrev_b16": {w: [3]int{1, 1}, dw: 1, f: func(l *lane) { l.d = (l.s[1] & 0xffff) << (l.s[0] & 15) & 0xffff; l.mask = 0xffff0000 }},
		"v_lshrrev_b16": {w: [3]int{1, 1}, dw: 1, f: func(l *lane) { l.d = (l.s[1] & 0xffff) >> (l.s[0] & 15); l.mask = 0xffff0000 }},
		"v_ashrrev_i16": {w: [3]int{1, 1}, dw: 1, f: func(l *lane) {
			l.d = uint64(uint16(int16(uint16(l.s[1])) >> (l.s[0] & 15)))
			l.mask = 0xffff0000
		}},
		"v_max_u16": {w: [3]int{1, 1}, dw: 1, f: func(l *lane) { l.d = uint64(umax(u32(l.s[0])&0xffff, u32(l.s[1])&0xffff)); l.mask = 0xffff0000 }},
		"v_min_u16": {w: [3]int{1, 1}, dw: 1, f: func(l *lane) { l.d = uint64(umin(u32(l.s[0])&0xffff, u32(l.s[1])&0xffff)); l.mask = 0xffff0000 }},
		"v_max_i16": {w: [3]int{1, 1}, dw: 1, f: func(l *lane) {
			l.d = uint64(uint16(imax(int32(int16(l.s[0])), int32(int16(l.s[1])))))
			l.mask = 0xffff0000
		}},
		"v_min_i16": {w: [3]int{1, 1}, dw: 1, f: func(l *lane) {
			l.d = uint64(uint16(imin(int32(int16(l.s[0])), int32(int16(l.s[1])))))
			l.mask = 0xffff0000
		}},

		// ---- VOP2 float
		"v_add_f32":    fbin32(addF32),
		"v_sub_f32":    fbin32(func(a, b uint32) fr32 { return addF32(a, b^0x80000000) }),
		"v_subrev_f32": fbin32(func(a, b uint32) fr32 { return addF32(b, a^0x80000000) }),
		"v_mul_f32":    fbin32(mulF32),
		// "D.f = S0.f * S1.f (DX9 rules, 0.0*x = 0.0)."
		"v_mul_legacy_f32": {w: [3]int{1, 1}, k: [3]vk{kF32, kF32}, dw: 1, dk: kF32, f: func(l *lane) {
			a, b := u32(l.s[0]), u32(l.s[1])
			if anyDen32(a, b) {
				l.k = fkMode
				return
			}
			if isZero32(a) || isZero32(b) {
				l.d = 0
				l.alt = []uint64{0x80000000}
				return
			}
			l.set32(mulF32(a, b))
		}},
		"v_min_f32": {w: [3]int{1, 1}, k: [3]vk{kF32, kF32}, dw: 1, dk: kF32, f: func(l *lane) { minmaxF32(l, u32(l.s[0]), u32(l.s[1]), false) }},
		"v_max_f32": {w: [3]int{1, 1}, k: [3]vk{kF32, kF32}, dw: 1, dk: kF32, f: func(l *lane) { minmaxF32(l, u32(l.s[0]), u32(l.s[1]), true) }},
		// "D.f = S0.f * S1.f + D.f." (12.6; "SQ translates this to V_MAD_F32")
		"v_mac_f32": {w: [3]int{1, 1}, k: [3]vk{kF32, kF32}, dw: 1, dk: kF32, rd: true, f: func(l *lane) {
			l.set32(madF32(u32(l.s[0]), u32(l.s[1]), u32(l.d0)))
		}},
		// CDNA3 ("MI300" ISA 12.x VOP2 59): V_FMAC_F32: D.f = fma(S0.f, S1.f, D.f)
		"v_fmac_f32": {w: [3]int{1, 1}, k: [3]vk{kF32, kF32}, dw: 1, dk: kF32, rd: true, f: func(l *lane) {
			l.set32(fmaF32(u32(l.s[0]), u32(l.s[1]), u32(l.d0)))
		}},
		// "D.f = S0.f * S1.f + K; K is a 32-bit literal constant." (src2 = K)
		"v_madak_f32": {w: [3]int{1, 1, 1}, k: [3]vk{kF32, kF32, kF32}, dw: 1, dk: kF32, f: func(l *lane) {
			l.set32(madF32(u32(l.s[0]), u32(l.s[1]), u32(l.s[2])))
		}},
		// "D.f = S0.f * K + S1.f; K is a 32-bit literal constant."
		"v_madmk_f32": {w: [3]int{1, 1, 1}, k: [3]vk{kF32, kF32, kF32}, dw: 1, dk: kF32, f: func(l *lane) {
			l.set32(madF32(u32(l.s[0]), u32(l.s[2]), u32(l.s[1])))
		}},

		// CDNA3 ("MI300" ISA VOP2 23 / 24): V_FMAMK_F32: D.f = fma(S0.f, K, S1.f); V_FMAAK_F32: D.f = fma(S0.f, S1.f, K)
		"v_fmamk_f32": {w: [3]int{1, 1, 1}, k: [3]vk{kF32, kF32, kF32}, dw: 1, dk: kF32, f: func(l *lane) {
			l.set32(fmaF32(u32(l.s[0]), u32(l.s[2]), u32(l.s[1])))
		}},
		"v_fmaak_f32": {w: [3]int{1, 1, 1}, k: [3]vk{kF32, kF32, kF32}, dw: 1, dk: kF32, f: func(l *lane) {
			l.set32(fmaF32(u32(l.s[0]), u32(l.s[1]), u32(l.s[2])))
		}},
		// CDNA3 ("MI300" ISA VOP1 56): V_MOV_B64: D.u64 = S0.u64
		"v_mov_b64": {w: [3]int{2}, dw: 2, f: func(l *lane) { l.d = l.s[0] }},

		// ---- carry arithmetic. 3.x: "VCC is always fully written; there are no partial mask updates."
		// V_ADD_U32 (GCN3) = V_ADD_CO_U32 (CDNA3): "D.u = S0.u + S1.u; VCC[threadId] = carry-out"
		"v_add_co_u32": {w: [3]int{1, 1}, dw: 1, cout: true, f: func(l *lane) {
			s := (l.s[0] & 0xffffffff) + (l.s[1] & 0xffffffff)
			l.d, l.cout = s&0xffffffff, uint32(s>>32)
		}},
		// "D.u = S0.u - S1.u; VCC[threadId] = (S1.u > S0.u ? 1 : 0)"
		"v_sub_co_u32": {w: [3]int{1, 1}, dw: 1, cout: true, f: func(l *lane) {
			d, bo := bits.Sub32(u32(l.s[0]), u32(l.s[1]), 0)
			l.d, l.cout = uint64(d), bo
		}},
		// "D.u = S1.u - S0.u; VCC[threadId] = (S0.u > S1.u ? 1 : 0)"
		"v_subrev_co_u32": {w: [3]int{1, 1}, dw: 1, cout: true, f: func(l *lane) {
			d, bo := bits.Sub32(u32(l.s[1]), u32(l.s[0]), 0)
			l.d, l.cout = uint64(d), bo
		}},
		// "D.u = S0.u + S1.u + VCC; VCC=carry-out (VOP3:sgpr=carry-out, S2.u=carry-in)."
		"v_addc_co_u32": {w: [3]int{1, 1}, dw: 1, cin: true, cout: true, f: func(l *lane) {
			s := (l.s[0] & 0xffffffff) + (l.s[1] & 0xffffffff) + uint64(l.cin)
			l.d, l.cout = s&0xffffffff, uint32(s>>32)
		}},
		// "D.u = S0.u - S1.u - VCC; VCC=carry-out"
		"v_subb_co_u32": {w: [3]int{1, 1}, dw: 1, cin: true, cout: true, f: func(l *lane) {
			d, bo := bits.Sub32(u32(l.s[0]), u32(l.s[1]), l.cin)
			l.d, l.cout = uint64(d), bo
		}},
		// "D.u = S1.u - S0.u - VCC; VCC=carry-out"
		"v_subbrev_co_u32": {w: [3]int{1, 1}, dw: 1, cin: true, cout: true, f: func(l *lane) {
			d, bo := bits.Sub32(u32(l.s[1]), u32(l.s[0]), l.cin)
			l.d, l.cout = uint64(d), bo
		}},
		// CDNA3 VOP2 52..54 ("MI300" ISA): no carry-out: D.u = S0.u + S1.u etc.
		"v_add_nc_u32":    bin32(func(a, b uint32) uint32 { return a + b }),
		"v_sub_nc_u32":    bin32(func(a, b uint32) uint32 { return a - b }),
		"v_subrev_nc_u32": bin32(func(a, b uint32) uint32 { return b - a }),

		// ---- VOP3 integer
		// "Result = Arg1.i[23:0] * Arg2.i[23:0] + Arg3.i[31:0] (low order bits)."
		"v_mad_i32_i24": tri32(func(a, b, c uint32) uint32 { return uint32(sext24(a)*sext24(b)) + c }),
		// "D.u = S0.u[23:0] * S1.u[23:0] + S2.u[31:0]."
		"v_mad_u32_u24": tri32(func(a, b, c uint32) uint32 { return uint32(zext24(a)*zext24(b)) + c }),
		// "{vcc_out,D.u64} = S0.u32 * S1.u32 + S2.u64."
		"v_mad_u64_u32": {w: [3]int{1, 1, 2}, dw: 2, cout: true, f: func(l *lane) {
			hi, lo := bits.Mul64(l.s[0]&0xffffffff, l.s[1]&0xffffffff)
			s, c := bits.Add64(lo, l.s[2], 0)
			_ = hi // the 32x32 product never exceeds 64 bits
			l.d, l.cout = s, uint32(c)
		}},
		// "{vcc_out,D.i64} = S0.i32 * S1.i32 + S2.i64." (carry = signed overflow is not spelled out: D only)
		"v_mad_i64_i32": {w: [3]int{1, 1, 2}, dw: 2, f: func(l *lane) {
			l.d = uint64(int64(i32(l.s[0]))*int64(i32(l.s[1])) + int64(l.s[2]))
		}},
		// "D.u = (S0.u>>S1.u[4:0]) & ((1<<S2.u[4:0])-1)"
		"v_bfe_u32": tri32(func(a, b, c uint32) uint32 { return a >> (b & 31) & (uint32(1)<<(c&31) - 1) }),
		// DX11 signed bitfield extract (12.10 pseudo code)
		"v_bfe_i32": tri32(func(a, b, c uint32) uint32 {
			off, w := b&31, c&31
			switch {
			case w == 0:
				return 0
			case off+w < 32:
				return uint32(int32(a<<(32-off-w)) >> (32 - w))
			}
			return uint32(int32(a) >> off)
		}),
		// "D.u = (S0.u & S1.u) | (~S0.u & S2.u)."
		"v_bfi_b32": tri32(func(a, b, c uint32) uint32 { return a&b | ^a&c }),
		// "D.u = ({S0,S1} >> S2.u[4:0]) & 0xFFFFFFFF."
		"v_alignbit_b32": tri32(func(a, b, c uint32) uint32 { return uint32((uint64(a)<<32 | uint64(b)) >> (c & 31)) }),
		// "dst = ({src0, src1} >> (8 * src2[1:0])) & 0xFFFFFFFF"
		"v_alignbyte_b32": tri32(func(a, b, c uint32) uint32 { return uint32((uint64(a)<<32 | uint64(b)) >> (8 * (c & 3))) }),
		"v_min3_i32":      tri32(func(a, b, c uint32) uint32 { return uint32(imin(imin(int32(a), int32(b)), int32(c))) }),
		"v_max3_i32":      tri32(func(a, b, c uint32) uint32 { return uint32(imax(imax(int32(a), int32(b)), int32(c))) }),
		"v_min3_u32":      tri32(func(a, b, c uint32) uint32 { return umin(umin(a, b), c) }),
		"v_max3_u32":      tri32(func(a, b, c uint32) uint32 { return umax(umax(a, b), c) }),
		// "If (MAX3(S0,S1,S2) == S0) D = MAX(S1, S2) Else if (MAX3 == S1) D = MAX(S0, S2) Else D = MAX(S0, S1)"
		"v_med3_i32": tri32(func(a, b, c uint32) uint32 {
			x, y, z := int32(a), int32(b), int32(c)
			m := imax(imax(x, y), z)
			switch m {
			case x:
				return uint32(imax(y, z))
			case y:
				return uint32(imax(x, z))
			}
			return uint32(imax(x, y))
		}),
		"v_med3_u32": tri32(func(a, b, c uint32) uint32 {
			m := umax(umax(a, b), c)
			switch m {
			case a:
				return umax(b, c)
			case b:
				return umax(a, c)
			}
			return umax(a, b)
		}),
		// "D.u = S0.u * S1.u." / "D.u = (S0.u * S1.u)>>32." / "D.i = (S0.i * S1.i)>>32."
		"v_mul_lo_u32": bin32(func(a, b uint32) uint32 { return a * b }),
		"v_mul_lo_i32": bin32(func(a, b uint32) uint32 { return a * b }),
		"v_mul_hi_u32": bin32(func(a, b uint32) uint32 { h, _ := bits.Mul32(a, b); return h }),
		"v_mul_hi_i32": bin32(func(a, b uint32) uint32 { return uint32(int64(int32(a)) * int64(int32(b)) >> 32) }),
		// "D.u64 = S1.u64 << S0.u[5:0]."
		"v_lshlrev_b64": {w: [3]int{1, 2}, dw: 2, f: func(l *lane) { l.d = l.s[1] << (l.s[0] & 63) }},
		"v_lshrrev_b64": {w: [3]int{1, 2}, dw: 2, f: func(l *lane) { l.d = l.s[1] >> (l.s[0] & 63) }},
		// "D.u64 = signext(S1.u64) >> S0.u[5:0]."
		"v_ashrrev_i64": {w: [3]int{1, 2}, dw: 2, f: func(l *lane) { l.d = uint64(int64(l.s[1]) >> (l.s[0] & 63)) }},
		// "D.u = ((1<<S0.u[4:0])-1) << S1.u[4:0]"
		"v_bfm_b32": bin32(func(a, b uint32) uint32 { return (uint32(1)<<(a&31) - 1) << (b & 31) }),
		// "D.u = CountOneBits(S0.u) + S1.u."
		"v_bcnt_u32_b32": bin32(func(a, b uint32) uint32 { return uint32(bits.OnesCount32(a)) + b }),
		// "ThreadMask = (1 << ThreadPosition) - 1; D.u = CountOneBits(S0.u & ThreadMask[31:0]) + S1.u."
		"v_mbcnt_lo_u32_b32": {w: [3]int{1, 1}, dw: 1, f: func(l *lane) {
			tm := uint64(1)<<uint(l.id) - 1
			l.d = uint64(uint32(bits.OnesCount32(u32(l.s[0])&uint32(tm))) + u32(l.s[1]))
		}},
		"v_mbcnt_hi_u32_b32": {w: [3]int{1, 1}, dw: 1, f: func(l *lane) {
			tm := uint64(1)<<uint(l.id) - 1
			l.d = uint64(uint32(bits.OnesCount32(u32(l.s[0])&uint32(tm>>32))) + u32(l.s[1]))
		}},
		// CDNA3-only three-operand integer ops ("MI300" ISA, VOP3 509..512, 520, 511):
		// V_LSHL_ADD_U32: D.u = (S0.u << S1.u[4:0]) + S2.u
		"v_lshl_add_u32": tri32(func(a, b, c uint32) uint32 { return a<<(b&31) + c }),
		// V_ADD_LSHL_U32: D.u = (S0.u + S1.u) << S2.u[4:0]
		"v_add_lshl_u32": tri32(func(a, b, c uint32) uint32 { return (a + b) << (c & 31) }),
		// V_ADD3_U32: D.u = S0.u + S1.u + S2.u
		"v_add3_u32": tri32(func(a, b, c uint32) uint32 { return a + b + c }),
		// V_LSHL_OR_B32: D.u = (S0.u << S1.u[4:0]) | S2.u
		"v_lshl_or_b32": tri32(func(a, b, c uint32) uint32 { return a<<(b&31) | c }),
		// V_AND_OR_B32: D.u = (S0.u & S1.u) | S2.u ; V_OR3_B32: D.u = S0.u | S1.u | S2.u
		"v_and_or_b32": tri32(func(a, b, c uint32) uint32 { return a&b | c }),
		"v_or3_b32":    tri32(func(a, b, c uint32) uint32 { return a | b | c }),
		// V_XAD_U32: D.u = (S0.u ^ S1.u) + S2.u
		"v_xad_u32": tri32(func(a, b, c uint32) uint32 { return (a ^ b) + c }),
		// V_LSHL_ADD_U64: D.u64 = (S0.u64 << S1.u[2:0]) + S2.u64; shift amounts above 4 are not defined
		"v_lshl_add_u64": {w: [3]int{2, 1, 2}, dw: 2, f: func(l *lane) {
			sh := l.s[1] & 7
			l.d = l.s[0]<<sh + l.s[2]
			if sh > 4 || l.s[1]&0xffffffff > 4 {
				l.mask = ^uint64(0)
				l.why = "V_LSHL_ADD_U64: shift amount > 4 is not defined"
			}
		}},

		// ---- VOP3 float
		// "Gives same result as ADD after MUL_IEEE. D.f = S0.f * S1.f + S2.f."
		"v_mad_f32": {w: [3]int{1, 1, 1}, k: [3]vk{kF32, kF32, kF32}, dw: 1, dk: kF32, f: func(l *lane) {
			l.set32(madF32(u32(l.s[0]), u32(l.s[1]), u32(l.s[2])))
		}},
		// "Fused single-precision multiply-add. D.f = S0.f * S1.f + S2.f."
		"v_fma_f32": {w: [3]int{1, 1, 1}, k: [3]vk{kF32, kF32, kF32}, dw: 1, dk: kF32, f: func(l *lane) {
			l.set32(fmaF32(u32(l.s[0]), u32(l.s[1]), u32(l.s[2])))
		}},
		// "A single round is performed on the sum. D.d = S0.d * S1.d + S2.d."
		"v_fma_f64": {w: [3]int{2, 2, 2}, k: [3]vk{kF64, kF64, kF64}, dw: 2, dk: kF64, f: func(l *lane) {
			l.set64(fmaF64(l.s[0], l.s[1], l.s[2]))
		}},
		"v_add_f64": fbin64(addF64),
		"v_mul_f64": fbin64(mulF64),
		"v_min_f64": {w: [3]int{2, 2}, k: [3]vk{kF64, kF64}, dw: 2, dk: kF64, f: func(l *lane) { minmaxF64(l, l.s[0], l.s[1], false) }},
		"v_max_f64": {w: [3]int{2, 2}, k: [3]vk{kF64, kF64}, dw: 2, dk: kF64, f: func(l *lane) { minmaxF64(l, l.s[0], l.s[1], true) }},
		"v_min3_f32": {w: [3]int{1, 1, 1}, k: [3]vk{kF32, kF32, kF32}, dw: 1, dk: kF32, f: func(l *lane) {
			if f3ok(l) {
				l.d = uint64(b32(float32(math.Min(math.Min(float64(f32(u32(l.s[0]))), float64(f32(u32(l.s[1])))), float64(f32(u32(l.s[2])))))))
			}
		}},
		"v_max3_f32": {w: [3]int{1, 1, 1}, k: [3]vk{kF32, kF32, kF32}, dw: 1, dk: kF32, f: func(l *lane) {
			if f3ok(l) {
				l.d = uint64(b32(float32(math.Max(math.Max(float64(f32(u32(l.s[0]))), float64(f32(u32(l.s[1])))), float64(f32(u32(l.s[2])))))))
			}
		}},
		"v_med3_f32": {w: [3]int{1, 1, 1}, k: [3]vk{kF32, kF32, kF32}, dw: 1, dk: kF32, f: func(l *lane) {
			if f3ok(l) {
				a, b, c := float64(f32(u32(l.s[0]))), float64(f32(u32(l.s[1]))), float64(f32(u32(l.s[2])))
				m := math.Max(math.Max(a, b), c)
				var r float64
				switch m {
				case a:
					r = math.Max(b, c)
				case b:
					r = math.Max(a, c)
				default:
					r = math.Max(a, b)
				}
				l.d = uint64(b32(float32(r)))
			}
		}},
	}
}

// valuName maps the per-architecture manual mnemonic to the key of valuTable
// (the GFX9 renaming of the carry-writing adds, CDNA3's carry-less adds).
func valuName(arch gcnasm.Arch, name string) string {
	if arch == gcnasm.GCN3 {
		switch name {
		case "v_add_u32":
			return "v_add_co_u32"
		case "v_sub_u32":
			return "v_sub_co_u32"
		case "v_subrev_u32":
			return "v_subrev_co_u32"
		case "v_addc_u32":
			return "v_addc_co_u32"
		case "v_subb_u32":
			return "v_subb_co_u32"
		case "v_subbrev_u32":
			return "v_subbrev_co_u32"
		}
		return name
	}
	switch name {
	case "v_add_u32":
		return "v_add_nc_u32"
	case "v_sub_u32":
		return "v_sub_nc_u32"
	case "v_subrev_u32":
		return "v_subrev_nc_u32"
	}
	return name
}

func absBit(m uint8, i int) bool { return m>>uint(i)&1 == 1 }

// execVALU runs one VOP1/VOP2/VOP3a/VOP3b instruction.
func execVALU(key string, d *gcnasm.Desc, st *State, out *Outcome) {
	if key == "v_readfirstlane_b32" {
		// "Lane# = FindFirst1fromLSB(exec) (lane = 0 if exec is zero). Executes regardless of exec mask value."
		ln := 0
		if st.EXEC != 0 {
			ln = bits.TrailingZeros64(st.EXEC)
		}
		if d.Src0.Kind != gcnasm.KVGPR {
			bail("v_readfirstlane_b32 from a non-VGPR source")
		}
		st.sdst32(d.Dst, st.V(ln, d.Src0.Index))
		return
	}
	if key == "v_readlane_b32" {
		// "Src1 = Lane Select (SGPR or M0). Ignores exec mask."
		if d.Src0.Kind != gcnasm.KVGPR {
			bail("v_readlane_b32 from a non-VGPR source")
		}
		ln := int(st.ssrc32(d.Src1) & 63)
		st.sdst32(d.Dst, st.V(ln, d.Src0.Index))
		return
	}
	sp, ok := valuTable[key]
	if !ok {
		bail("no exact reference for %s", key)
	}
	if d.DPP != nil {
		bail("DPP is not modelled")
	}
	if d.SDWA != nil {
		execSDWA(key, sp, d, st, out)
		return
	}
	vop3 := d.Format == gcnasm.VOP3a || d.Format == gcnasm.VOP3b
	srcs := [3]gcnasm.Operand{d.Src0, d.Src1, d.Src2}
	if !vop3 && (d.Abs != 0 || d.Neg != 0 || d.Clamp || d.Omod != 0) {
		bail("modifiers on a 32-bit encoding")
	}
	if sp.dk == kBits && (d.Omod != 0) {
		bail("OMOD on an integer instruction")
	}
	if sp.dk == kBits && d.Clamp {
		bail("integer CLAMP (saturation) is not modelled")
	}
	for i := 0; i < 3; i++ {
		if sp.k[i] == kBits && (absBit(d.Abs, i) || absBit(d.Neg, i)) {
			bail("ABS/NEG on an integer source")
		}
	}
	oldVCC := st.VCC
	var carryIn uint64 = oldVCC
	var selMask uint64 = oldVCC
	if vop3 && (sp.cin || sp.sel) {
		carryIn = st.ssrc64(d.Src2, kBits)
		selMask = carryIn
	}
	var newCarry uint64
	type wr struct {
		lane int
		l    lane
	}
	var writes []wr
	for ln := 0; ln < NumLanes; ln++ {
		if !st.Active(ln) {
			continue
		}
		l := lane{id: ln, exec: st.EXEC}
		for i := 0; i < 3; i++ {
			if sp.w[i] == 0 {
				continue
			}
			if sp.w[i] == 2 {
				l.s[i] = st.vsrc64(srcs[i], ln, sp.k[i])
				if sp.k[i] == kF64 {
					l.s[i] = inMod64(l.s[i], absBit(d.Abs, i), absBit(d.Neg, i))
				}
			} else {
				v := st.vsrc32(srcs[i], ln)
				if sp.k[i] == kF32 {
					v = inMod32(v, absBit(d.Abs, i), absBit(d.Neg, i))
				}
				l.s[i] = uint64(v)
			}
		}
		if sp.rd {
			if d.Dst.Kind != gcnasm.KVGPR {
				bail("accumulating instruction without VGPR destination")
			}
			l.d0 = uint64(st.V(ln, d.Dst.Index))
		}
		if sp.cin {
			l.cin = uint32(carryIn >> uint(ln) & 1)
		}
		if sp.sel {
			l.cin = uint32(selMask >> uint(ln) & 1)
		}
		sp.f(&l)
		if sp.dk == kF32 && l.mask == 0 && len(l.alt) == 0 && !l.anyNaN {
			r := outMod32(fr32{uint32(l.d), l.k}, d.Omod, d.Clamp)
			l.d, l.k = uint64(r.v), r.k
		} else if sp.dk == kF64 && l.mask == 0 && len(l.alt) == 0 && !l.anyNaN {
			r := outMod64(fr64{l.d, l.k}, d.Omod, d.Clamp)
			l.d, l.k = r.v, r.k
		} else if (sp.dk == kF32 || sp.dk == kF64) && (d.Omod != 0 || d.Clamp) {
			l.k = fkMode
		}
		if sp.cout && l.cout != 0 {
			newCarry |= 1 << uint(ln)
		}
		writes = append(writes, wr{ln, l})
	}
	// write back
	for _, w := range writes {
		l := w.l
		if sp.dw == 0 {
			continue
		}
		if d.Dst.Kind != gcnasm.KVGPR {
			bail("vector destination is not a VGPR")
		}
		if d.Dst.Index+sp.dw > NumVGPR {
			bail("VGPR destination out of range")
		}
		c0 := VCell(w.lane, d.Dst.Index)
		st.SetV(w.lane, d.Dst.Index, uint32(l.d))
		if sp.dw == 2 {
			st.SetV(w.lane, d.Dst.Index+1, uint32(l.d>>32))
		}
		switch {
		case l.k == fkMode || l.mask == ^uint64(0):
			why := l.why
			if why == "" {
				why = "denormal operand/result or MODE-dependent rule"
			}
			out.loose(c0, Loose{Mask: 0xffffffff, Why: why})
			if sp.dw == 2 {
				out.loose(c0+1, Loose{Mask: 0xffffffff, Why: why})
			}
		case l.k == fkNaN:
			if sp.dw == 2 {
				out.loose(c0, Loose{NaN64: true})
			} else {
				out.loose(c0, Loose{NaN32: true})
			}
		default:
			if l.mask != 0 {
				out.loose(c0, Loose{Mask: uint32(l.mask), Why: l.why})
				if sp.dw == 2 && l.mask>>32 != 0 {
					out.loose(c0+1, Loose{Mask: uint32(l.mask >> 32), Why: l.why})
				}
			}
			if len(l.alt) > 0 || l.anyNaN {
				lo := Loose{Why: l.why}
				if sp.dw == 2 {
					lo.Alt64 = l.alt
					lo.AnyNaN64 = l.anyNaN
				} else {
					for _, a := range l.alt {
						lo.Alt = append(lo.Alt, uint32(a))
					}
					lo.AnyNaN32 = l.anyNaN
				}
				out.loose(c0, lo)
			}
		}
	}
	if sp.cout {
		switch {
		case d.Format == gcnasm.VOP3b:
			st.sdst64(d.SDst, newCarry)
		case d.Format == gcnasm.VOP3a:
			// V_MAD_U64_U32 in the GCN3 VOP3a layout has no field for vcc_out: nothing to write
		default:
			st.VCC = newCarry
		}
	}
}
