// Package isaspec is an executable transcription of the AMD GCN3 ISA manual
// (docs/gcn3-instruction-set-architecture.pdf, chapters 5-13) and of the
// published one-line definitions of the CDNA3-only instructions, written
// independently of amd/emu: a pure function
//
//	(arch, format, opcode, operand descriptions, modifiers, state) -> state'
//
// over the harness' own architectural state (State). It does not import the
// simulator; operands are the encoder's descriptions (gcnasm.Operand), i.e.
// the operand *codes* of the manuals' operand tables, and are resolved here.
//
// Where the ISA does not prescribe one result (NaN payloads, anything that
// depends on the MODE register: denormal flushing, IEEE/DX10 min-max rules,
// DX10_CLAMP) the outcome marks the affected cells as loose; see Loose.
package isaspec

import (
	"fmt"
	"sort"
)

// Sizes of the modelled register files (what one wavefront can name).
const (
	NumSGPR  = 102
	NumVGPR  = 256
	NumLanes = 64
)

// Cell identifiers: every 32-bit (or smaller) architectural cell has one.
const (
	CellSGPR0  = 0 // .. 101
	CellVCCLo  = 200
	CellVCCHi  = 201
	CellEXECLo = 202
	CellEXECHi = 203
	CellM0     = 204
	CellSCC    = 205
	CellPCLo   = 206
	CellPCHi   = 207
	CellVGPR0  = 1000 // + lane*256 + reg
)

// VCell is the cell id of VGPR reg in lane.
func VCell(lane, reg int) int { return CellVGPR0 + lane*NumVGPR + reg }

// CellName renders a cell id.
func CellName(c int) string {
	switch {
	case c >= 0 && c < NumSGPR:
		return fmt.Sprintf("s%d", c)
	case c >= CellVGPR0:
		c -= CellVGPR0
		return fmt.Sprintf("v%d[lane %d]", c%NumVGPR, c/NumVGPR)
	}
	switch c {
	case CellVCCLo:
		return "vcc_lo"
	case CellVCCHi:
		return "vcc_hi"
	case CellEXECLo:
		return "exec_lo"
	case CellEXECHi:
		return "exec_hi"
	case CellM0:
		return "m0"
	case CellSCC:
		return "scc"
	case CellPCLo:
		return "pc_lo"
	case CellPCHi:
		return "pc_hi"
	}
	return fmt.Sprintf("cell(%d)", c)
}

// Access is one memory access (virtual address, size in bytes).
type Access struct {
	Addr  uint64 `json:"addr"`
	Size  int    `json:"size"`
	Write bool   `json:"write,omitempty"`
}

// Memory is a flat byte-addressed memory: every byte has a defined value
// (a hash of its address and Seed) until it is written.
type Memory struct {
	Seed uint64
	W    map[uint64]byte
	Log  []Access
}

// NewMemory returns a memory whose unwritten bytes are a function of seed.
func NewMemory(seed uint64) *Memory { return &Memory{Seed: seed, W: map[uint64]byte{}} }

func mix64(x uint64) uint64 {
	x += 0x9e3779b97f4a7c15
	x = (x ^ (x >> 30)) * 0xbf58476d1ce4e5b9
	x = (x ^ (x >> 27)) * 0x94d049bb133111eb
	return x ^ (x >> 31)
}

// Byte returns the current value of one byte.
func (m *Memory) Byte(a uint64) byte {
	if v, ok := m.W[a]; ok {
		return v
	}
	return byte(mix64(m.Seed^(a>>3)*0x2545f4914f6cdd1d) >> (8 * (a & 7)))
}

// Read returns n bytes at a and logs the access.
func (m *Memory) Read(a uint64, n int) []byte {
	m.Log = append(m.Log, Access{Addr: a, Size: n})
	out := make([]byte, n)
	for i := range out {
		out[i] = m.Byte(a + uint64(i))
	}
	return out
}

// Write stores data at a and logs the access.
func (m *Memory) Write(a uint64, data []byte) {
	m.Log = append(m.Log, Access{Addr: a, Size: len(data), Write: true})
	for i, b := range data {
		m.W[a+uint64(i)] = b
	}
}

// WrittenAddrs lists the written byte addresses, ascending.
func (m *Memory) WrittenAddrs() []uint64 {
	out := make([]uint64, 0, len(m.W))
	for a := range m.W {
		out = append(out, a)
	}
	sort.Slice(out, func(i, j int) bool { return out[i] < out[j] })
	return out
}

// State is the architectural state of one wavefront plus its LDS allocation
// and the memory it can reach.
type State struct {
	SGPR [NumSGPR]uint32
	VGPR []uint32 // [lane*NumVGPR + reg]
	VCC  uint64
	EXEC uint64
	SCC  uint32 // 0 or 1
	M0   uint32
	// PC is the program counter as the instruction sees it: the simulator
	// (like the hardware) has already advanced it past the instruction, so a
	// taken branch computes PC + SIMM16*4 (manual: "PC = PC + signext(SIMM16
	// * 4) + 4" relative to the branch's own address).
	PC  uint64
	LDS []byte
	Mem *Memory
}

// NewState allocates an all-zero state with ldsBytes of LDS.
func NewState(ldsBytes int, memSeed uint64) *State {
	return &State{VGPR: make([]uint32, NumLanes*NumVGPR), LDS: make([]byte, ldsBytes), Mem: NewMemory(memSeed)}
}

// Clone returns a deep copy (the memory log is not copied).
func (s *State) Clone() *State {
	c := *s
	c.VGPR = append([]uint32(nil), s.VGPR...)
	c.LDS = append([]byte(nil), s.LDS...)
	m := &Memory{Seed: s.Mem.Seed, W: make(map[uint64]byte, len(s.Mem.W))}
	for k, v := range s.Mem.W {
		m.W[k] = v
	}
	c.Mem = m
	return &c
}

// V / SetV access one VGPR of one lane.
func (s *State) V(lane, reg int) uint32       { return s.VGPR[lane*NumVGPR+reg] }
func (s *State) SetV(lane, reg int, v uint32) { s.VGPR[lane*NumVGPR+reg] = v }

// Active reports whether lane is enabled in EXEC.
func (s *State) Active(lane int) bool { return s.EXEC>>uint(lane)&1 == 1 }

// Loose says how one cell may differ from the state Exec produced.
type Loose struct {
	// Mask: these bits are not judged (result depends on MODE or is left
	// open by the manual).
	Mask uint32
	// NaN32: the specified result is a NaN; any f32 NaN encoding conforms.
	NaN32 bool
	// NaN64: the cell is the LOW dword of an f64 result that is a NaN; any
	// f64 NaN encoding in (cell, cell+1) conforms.
	NaN64 bool
	// Alt: further complete values of the cell that conform (the ISA allows
	// several results, e.g. min/max of +0 and -0, IEEE vs DX10 mode).
	Alt []uint32
	// Alt64: like Alt for the 64-bit value in (cell, cell+1); on the low cell.
	Alt64 []uint64
	// AnyNaN32 / AnyNaN64: in addition to the specified value, any NaN
	// conforms (sNaN operand of min/max: IEEE mode quiets it, DX10 mode
	// returns the other operand).
	AnyNaN32 bool
	AnyNaN64 bool
	// Why documents the reason (goes into evidence, not into verdicts).
	Why string
}

// Outcome is what Exec reports besides the mutated state.
type Outcome struct {
	// Ref is false if the instruction has no exact reference here (then the
	// state is untouched and nothing is judged); Why says why.
	Ref bool
	Why string
	// Name is the manual mnemonic used, Cite the manual text it transcribes.
	Name string
	Cite string
	// Loose cells (see Loose). Cells not listed must match exactly.
	Loose map[int]Loose
	// LDSLoose / reserved for byte ranges of LDS that are not judged.
	Note string
}

func (o *Outcome) loose(cell int, l Loose) {
	if o.Loose == nil {
		o.Loose = map[int]Loose{}
	}
	if old, ok := o.Loose[cell]; ok {
		l.Mask |= old.Mask
		l.NaN32 = l.NaN32 || old.NaN32
		l.NaN64 = l.NaN64 || old.NaN64
		l.AnyNaN32 = l.AnyNaN32 || old.AnyNaN32
		l.AnyNaN64 = l.AnyNaN64 || old.AnyNaN64
		l.Alt = append(l.Alt, old.Alt...)
		l.Alt64 = append(l.Alt64, old.Alt64...)
		if l.Why == "" {
			l.Why = old.Why
		}
	}
	o.Loose[cell] = l
}
