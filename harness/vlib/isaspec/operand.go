package isaspec

import (
	"fmt"
	"math"

	"verifharness/vlib/gcnasm"
)

// noRef is panicked inside Exec when an instruction (or one of its operands)
// is outside what this reference models; Exec turns it into Outcome.Ref=false.
type noRef struct{ why string }

func bail(format string, a ...any) { panic(noRef{fmt.Sprintf(format, a...)}) }

// vk says how a 64-bit source is to be widened from inline constants.
type vk int

const (
	kBits vk = iota // untyped / integer: inline integers sign-extended
	kF32            // 32-bit float
	kF64            // 64-bit float: inline floats are doubles, literal = high dword
)

func isScalarKind(o gcnasm.Operand) bool { return o.Kind != gcnasm.KVGPR && o.Kind != gcnasm.KNone }

// ssrc32 reads a 32-bit scalar-side source (GCN3 manual table 5.1 / 6.1).
func (s *State) ssrc32(o gcnasm.Operand) uint32 {
	switch o.Kind {
	case gcnasm.KSGPR:
		if o.Index < 0 || o.Index >= NumSGPR {
			bail("SGPR %d out of range", o.Index)
		}
		return s.SGPR[o.Index]
	case gcnasm.KInt:
		return uint32(int32(o.Int))
	case gcnasm.KFloat:
		return math.Float32bits(float32(o.Float))
	case gcnasm.KLiteral:
		return o.Lit
	case gcnasm.KSpecial:
		switch o.Index {
		case gcnasm.CodeVCCLo:
			return uint32(s.VCC)
		case gcnasm.CodeVCCHi:
			return uint32(s.VCC >> 32)
		case gcnasm.CodeM0:
			return s.M0
		case gcnasm.CodeEXECLo:
			return uint32(s.EXEC)
		case gcnasm.CodeEXECHi:
			return uint32(s.EXEC >> 32)
		case gcnasm.CodeVCCZ:
			if s.VCC == 0 {
				return 1
			}
			return 0
		case gcnasm.CodeEXECZ:
			if s.EXEC == 0 {
				return 1
			}
			return 0
		case gcnasm.CodeSCC:
			return s.SCC
		}
		bail("special operand code %d not modelled", o.Index)
	}
	bail("operand kind %d not readable as scalar", o.Kind)
	return 0
}

// ssrc64 reads a 64-bit scalar-side source.
func (s *State) ssrc64(o gcnasm.Operand, k vk) uint64 {
	switch o.Kind {
	case gcnasm.KSGPR:
		if o.Index < 0 || o.Index+1 >= NumSGPR {
			bail("SGPR pair %d out of range", o.Index)
		}
		return uint64(s.SGPR[o.Index]) | uint64(s.SGPR[o.Index+1])<<32
	case gcnasm.KInt:
		// inline integer constants are integers of the operand's size
		return uint64(o.Int)
	case gcnasm.KFloat:
		if k == kF64 {
			if o.Float == gcnasm.Inv2Pi {
				// 6.2.1: "1/(2*PI) is special for 64-bit extension: the mantissa
				// bits from the 32-bit version are copied and the rest ... zero"
				return math.Float64bits(float64(float32(gcnasm.Inv2Pi)))
			}
			return math.Float64bits(o.Float)
		}
		bail("inline float constant as a 64-bit integer/bit-field source: not specified by the manual")
	case gcnasm.KLiteral:
		if k == kF64 {
			// 6.2.1: literal in a 64-bit float instruction: LSBs padded with zeros
			return uint64(o.Lit) << 32
		}
		bail("32-bit literal as a 64-bit integer source: the manual gives two contradicting extension rules (6.2.1)")
	case gcnasm.KSpecial:
		switch o.Index {
		case gcnasm.CodeVCCLo:
			return s.VCC
		case gcnasm.CodeEXECLo:
			return s.EXEC
		}
		bail("special operand code %d as 64-bit source not modelled", o.Index)
	}
	bail("operand kind %d not readable as 64-bit scalar", o.Kind)
	return 0
}

// vsrc32 / vsrc64 read a VALU source for one lane.
func (s *State) vsrc32(o gcnasm.Operand, lane int) uint32 {
	if o.Kind == gcnasm.KVGPR {
		return s.V(lane, o.Index)
	}
	return s.ssrc32(o)
}

func (s *State) vsrc64(o gcnasm.Operand, lane int, k vk) uint64 {
	if o.Kind == gcnasm.KVGPR {
		if o.Index+1 >= NumVGPR {
			bail("VGPR pair %d out of range", o.Index)
		}
		return uint64(s.V(lane, o.Index)) | uint64(s.V(lane, o.Index+1))<<32
	}
	return s.ssrc64(o, k)
}

// sdst32 / sdst64 write a scalar destination.
func (s *State) sdst32(o gcnasm.Operand, v uint32) {
	switch o.Kind {
	case gcnasm.KSGPR:
		if o.Index < 0 || o.Index >= NumSGPR {
			bail("SGPR %d out of range", o.Index)
		}
		s.SGPR[o.Index] = v
		return
	case gcnasm.KSpecial:
		switch o.Index {
		case gcnasm.CodeVCCLo:
			s.VCC = s.VCC&^0xffffffff | uint64(v)
			return
		case gcnasm.CodeVCCHi:
			s.VCC = s.VCC&0xffffffff | uint64(v)<<32
			return
		case gcnasm.CodeM0:
			s.M0 = v
			return
		case gcnasm.CodeEXECLo:
			s.EXEC = s.EXEC&^0xffffffff | uint64(v)
			return
		case gcnasm.CodeEXECHi:
			s.EXEC = s.EXEC&0xffffffff | uint64(v)<<32
			return
		}
	}
	bail("scalar destination %v not modelled", o)
}

func (s *State) sdst64(o gcnasm.Operand, v uint64) {
	switch o.Kind {
	case gcnasm.KSGPR:
		if o.Index < 0 || o.Index+1 >= NumSGPR {
			bail("SGPR pair %d out of range", o.Index)
		}
		s.SGPR[o.Index] = uint32(v)
		s.SGPR[o.Index+1] = uint32(v >> 32)
		return
	case gcnasm.KSpecial:
		switch o.Index {
		case gcnasm.CodeVCCLo:
			s.VCC = v
			return
		case gcnasm.CodeEXECLo:
			s.EXEC = v
			return
		}
	}
	bail("64-bit scalar destination %v not modelled", o)
}

// sdstCells lists the cell ids a scalar destination of n dwords covers.
func sdstCells(o gcnasm.Operand, n int) []int {
	switch o.Kind {
	case gcnasm.KSGPR:
		out := make([]int, n)
		for i := range out {
			out[i] = o.Index + i
		}
		return out
	case gcnasm.KSpecial:
		switch o.Index {
		case gcnasm.CodeVCCLo:
			if n == 2 {
				return []int{CellVCCLo, CellVCCHi}
			}
			return []int{CellVCCLo}
		case gcnasm.CodeVCCHi:
			return []int{CellVCCHi}
		case gcnasm.CodeEXECLo:
			if n == 2 {
				return []int{CellEXECLo, CellEXECHi}
			}
			return []int{CellEXECLo}
		case gcnasm.CodeEXECHi:
			return []int{CellEXECHi}
		case gcnasm.CodeM0:
			return []int{CellM0}
		}
	}
	return nil
}
