// Package vlib holds what every verification worker shares.
package vlib
