package vlib

import "hash/fnv"

// PRNG is xoshiro256** seeded through splitmix64. It is implemented here so
// that case lists do not depend on the Go release's math/rand stream.
type PRNG struct{ s [4]uint64 }

func splitmix(x *uint64) uint64 {
	*x += 0x9e3779b97f4a7c15
	z := *x
	z = (z ^ (z >> 30)) * 0xbf58476d1ce4e5b9
	z = (z ^ (z >> 27)) * 0x94d049bb133111eb
	return z ^ (z >> 31)
}

// NewPRNG returns a generator determined by seed.
func NewPRNG(seed uint64) *PRNG {
	p := &PRNG{}
	x := seed
	for i := range p.s {
		p.s[i] = splitmix(&x)
	}
	return p
}

func rotl(x uint64, k uint) uint64 { return (x << k) | (x >> (64 - k)) }

// Uint64 returns the next 64 random bits.
func (p *PRNG) Uint64() uint64 {
	r := rotl(p.s[1]*5, 7) * 9
	t := p.s[1] << 17
	p.s[2] ^= p.s[0]
	p.s[3] ^= p.s[1]
	p.s[1] ^= p.s[2]
	p.s[0] ^= p.s[3]
	p.s[2] ^= t
	p.s[3] = rotl(p.s[3], 45)
	return r
}

// Uint32 returns 32 random bits.
func (p *PRNG) Uint32() uint32 { return uint32(p.Uint64() >> 32) }

// Intn returns a value in [0,n). n must be > 0.
func (p *PRNG) Intn(n int) int {
	if n <= 0 {
		panic("vlib: Intn with n <= 0")
	}
	return int(p.Uint64() % uint64(n))
}

// Range returns a value in [lo,hi] inclusive.
func (p *PRNG) Range(lo, hi int) int { return lo + p.Intn(hi-lo+1) }

// Bool returns a fair coin.
func (p *PRNG) Bool() bool { return p.Uint64()&1 == 1 }

// Chance returns true with probability num/den.
func (p *PRNG) Chance(num, den int) bool { return p.Intn(den) < num }

// Float64 returns a value in [0,1).
func (p *PRNG) Float64() float64 { return float64(p.Uint64()>>11) / (1 << 53) }

// Bytes fills b with random bytes.
func (p *PRNG) Bytes(b []byte) {
	for i := 0; i < len(b); i += 8 {
		v := p.Uint64()
		for j := 0; j < 8 && i+j < len(b); j++ {
			b[i+j] = byte(v >> (8 * j))
		}
	}
}

// Perm returns a random permutation of 0..n-1.
func (p *PRNG) Perm(n int) []int {
	out := make([]int, n)
	for i := range out {
		out[i] = i
	}
	for i := n - 1; i > 0; i-- {
		j := p.Intn(i + 1)
		out[i], out[j] = out[j], out[i]
	}
	return out
}

// Fork derives an independent generator from this one's seed material and a
// label, without advancing this generator.
func (p *PRNG) Fork(label string) *PRNG {
	h := fnv.New64a()
	h.Write([]byte(label))
	return NewPRNG(p.s[0] ^ rotl(p.s[2], 13) ^ h.Sum64())
}

// ForkN is Fork with a numeric label component.
func (p *PRNG) ForkN(label string, n int) *PRNG {
	q := p.Fork(label)
	return NewPRNG(q.s[1] ^ uint64(n)*0x9e3779b97f4a7c15)
}
