#!/usr/bin/env python3
"""Writes /verif/seeded/README.md: one row per confirmed seeded break."""
import json, os
root = os.path.join(os.path.dirname(os.path.dirname(os.path.abspath(__file__))), 'seeded')
rows = []
for d in sorted(os.listdir(root)):
    p = os.path.join(root, d, 'meta.json')
    if not os.path.exists(p):
        continue
    m = json.load(open(p))
    r = m.get('what_was_run', {})
    checks = r.get('checks') or {}
    tier = next((t for t, c in checks.items() if c.get('exit') == 1), None)
    keys = []
    if tier:
        keys = [k.split('key=')[1].split(' : ')[0] for k in checks[tier].get('keys', []) if 'key=' in k and 'KNOWN' not in k][:2]
    def cell(s, n=170):
        s = (s or '').replace('\n', ' ').replace('|', '\\|')
        return s if len(s) <= n else s[:n] + '…'
    rows.append((d, m.get('breaks_property'), cell(m.get('summary')), cell(m.get('needs_to_manifest')),
                 'yes' if r.get('confirmed_seed') else 'NO', (tier or 'MISSED') + (': ' + cell('; '.join(keys), 160) if keys else ''),
                 cell(m.get('note'), 200)))
out = ["# Seeded breaks", "",
       "Changes written by independent sub-agents that saw only the property text (eleven rounds; later rounds were told which files the",
       "earlier ones touched). Each directory holds `patch.diff`, the demonstration, `run_demo.sh` and `meta.json` (what it needs to",
       "manifest, what was run). *confirmed* = applies to /repo HEAD at the time, builds, the 32 pinned tests pass, the demonstration fails",
       "with the patch and passes without it. *caught by* = tier of the property's own check (`bin/vcheck <ID> <tier>` with `VERIF_REPO` on a",
       "scratch worktree) that reported a VIOLATION, with the first keys. Checks that missed a seed at first were strengthened; see DESIGN.md §10.3.", "",
       "| dir | property | change | needs to manifest | confirmed | caught by | note |", "|---|---|---|---|---|---|---|"]
for r in rows:
    out.append('| ' + ' | '.join(str(x) for x in r) + ' |')
open(os.path.join(root, 'README.md'), 'w').write('\n'.join(out) + '\n')
print(len(rows), 'seeds;', sum(1 for r in rows if r[5].startswith('MISSED')), 'missed at last check')
