#!/usr/bin/env python3
"""Regenerates /verif/MANIFEST.json from the table below. A property is claimed
only if its worker directory exists and it has an entry in CHECKS."""
import json, os, subprocess
ROOT = os.path.dirname(os.path.dirname(os.path.abspath(__file__)))
ids = [json.loads(l)['id'] for l in open(os.path.join(ROOT, 'properties.jsonl'))]

# id -> (technique, level text, level note, design ref)
CHECKS = {
 'C17': ("reference-model monitor over recorded port trace (flat byte array replayed in observed arrival order), real component under random streams/configurations",
         "Held on N executions of the real simplebankedmemory component under seeded random request streams, timings and configurations (banks, interleave, pipeline width/depth/latency, row buffer, buffers, requester back-pressure): every request answered exactly once, every read byte equal to the flat model at its arrival point, final storage equal to the model. Exploration, not proof: the stream/configuration space is sampled.",
         "Trusts akita's port hooks for arrival order, the harness' flat model and generator; accesses stay inside one 64-byte line.", "DESIGN.md §3 C17"),
}
NA_REASON = {}
hooks_commits = subprocess.run(['git','-C','/repo','log','--format=%h %s','--grep=^verif hooks'],capture_output=True,text=True).stdout.strip().splitlines()
checks=[]; na=[]
for i in ids:
    w = os.path.join(ROOT,'harness','cmd','w_'+i.lower())
    if i in CHECKS and os.path.isdir(w):
        tech, text, note, ref = CHECKS[i]
        checks.append({
            "property_id": i,
            "quick_cmd": f"bin/vcheck {i} quick",
            "thorough_cmd": f"bin/vcheck {i} thorough",
            "evidence_file": f"evidence/{i}.json",
            "replay_cmd_template": f"bin/vcheck {i} quick --replay {{path}}",
            "engine": "vcheck",
            "level_claimed": {"category": "exploration", "text": text, "design_ref": ref},
            "level_note": note,
            "technique": tech,
        })
    else:
        na.append({"property_id": i, "reason": NA_REASON.get(i, "runtime monitor designed (DESIGN.md) but not built yet in this session; not claimed until its check exists and is silent on the unchanged tree")})
m = {
 "version": 1,
 "setup_cmd": "bin/setup",
 "hooks": {
   "guard": "verif",
   "enable": "go build -tags verif (bin/vbuild; harness module /verif/harness has `replace github.com/sarchlab/mgpusim/v4 => /repo`)",
   "baseline_off_cmd": "cd /repo && GOFLAGS=-mod=mod GOPROXY=off go test -json -vet=off -count=1 -timeout 25m ./...",
   "source_commits": [c.split()[0] for c in hooks_commits],
   "add_only": True,
 },
 "engines": [{"name": "vcheck", "path": "bin/vcheck", "serves_properties": [c["property_id"] for c in checks],
              "kind_free_text": "bash front end: rebuilds the Go worker harness/cmd/w_<id> against /repo's working tree with -tags verif (and -race where marked), runs it; the worker drives the real code, monitors it and writes evidence/<id>.json"}],
 "checks": checks,
 "not_applicable": na,
 "notes": "Runtime monitoring only. Known findings and fixed defects: known_findings.json. Exit codes: 0 held, 1 unlisted violation, 2 inconclusive.",
}
json.dump(m, open(os.path.join(ROOT,'MANIFEST.json'),'w'), indent=1)
print("claimed:", [c["property_id"] for c in checks])
