#!/usr/bin/env python3
"""Regenerates /verif/MANIFEST.json from the table below. A property is claimed
only if its worker directory exists and it has an entry in CHECKS."""
import json, os, subprocess
ROOT = os.path.dirname(os.path.dirname(os.path.abspath(__file__)))
ids = [json.loads(l)['id'] for l in open(os.path.join(ROOT, 'properties.jsonl'))]

# id -> (technique, level text, level note, design ref)
CHECKS = {
 'C04': ("runtime monitor of the real insts.Disassembler under -race: independent encoder (vlib/gcnasm, written from the manuals' field tables) round trip over every decode-table row x operand / modifier patterns; structured + random totality fuzzing with panic classification in child processes; suffix independence, second instance, call-order and concurrency metamorphic checks; sequential decode + re-encoding of every kernel of the 77 shipped .hsaco files",
         "Held (modulo the listed open findings, each keyed per class with a behaviour fingerprint) on ~170 000 round trips (1113 table rows x 2 decoder modes), ~580 000 fuzz inputs (2.8 M thorough) and 40 775 shipped instructions per run: decode(encode(d)) = d field by field, no memory fault, no mis-sized instruction, decode(b) independent of trailing bytes, instance, call order and concurrent use, shipped kernels consumed exactly. Exploration, not proof.",
         "Trusts the gcnasm bit layouts and mnemonic width rules (cross-checked by 21 manual / LLVM MC encodings and by re-encoding the whole shipped corpus byte-exactly), Go's panic classification, debug/elf.", "DESIGN.md §3 C04"),
 'C07': ("model-based monitor: both real register stores (emu.Wavefront; the timing CU's SimpleRegisterFiles behind wavefront.Wavefront + CURegFileAccessor, 2-6 co-resident wavefronts placed by the real WfDispatcher) driven with the same seeded operand read/write histories, operands harvested from the real decoder, compared with a flat array-of-cells model after every operation and by full sweeps",
         "Held on N operand read/write histories (quick 200x400 + 714 canonical cases + 486 probes; thorough 5000x2000) over s0-s101, v0-v255 x 64 lanes, VCC/EXEC pairs and halves, SCC, M0, widths 1-16 dwords, wavefront placements incl. adjacent/last-slot: every read equals the flat model, every write changes exactly the named cells in both stores, emulation and timing agree. One open known finding (VCC_LO read with RegCount 0 in emulation). Exploration, not proof.",
         "Trusts insts.Disassembler for operand construction (verified per harvest), the typed getters / raw SimpleRegisterFile.Read as independent read-back path, the harness' re-implementation of the dispatcher's placement arithmetic.", "DESIGN.md §3 C07"),
 'C08': ("set-arithmetic monitor over the real grid builder's output (NextWG to exhaustion, Skip partitions) and over the real driver's multi-GPU WGFilter closures captured from LaunchKernelReqs sent to fake command processors",
         "Held on N geometries (quick 3017, thorough 40 017; 1-3 D, non-power-of-two work-group sizes, grids that are not multiples, filters) and M unified-GPU launches (2-4 GPUs, unequal CU counts): the multiset of global ids over enabled lanes (decoded as both compute units decode them: FirstWiFlatID + lane) equals the grid, each exactly once, no lane enabled outside, NumWG() equals the produced count with and without filters, per-GPU work-group sets partition the grid. Register contents at the first instruction in both execution modes (layer 2) are covered indirectly by C02's differential runs, not by this check. Exploration, not proof.",
         "Trusts the lane -> work-item map read from emu.ComputeUnit.initWfRegs and cu.WfDispatcherImpl.initRegisters (identical loops), the drvkit fake command processors.", "DESIGN.md §3 C08"),
 'C09': ("offline port-trace checker + post-quiescence fill probes: the real command processor, dispatchers (round-robin / greedy / partition, 1-8) and CU resource pool between a fake driver and 1-16 fake compute units with finite resources, adversarial completion order, latency, batching and back-pressure",
         "Held on N scenarios (quick 15 canonical + 300 seeded, thorough 8000; 1-12 overlapping launches, filters, demand from tiny to one group per CU): every work-group of every launch mapped exactly once, SGPR/VGPR/LDS ranges of simultaneously resident groups disjoint and within the advertised capacity, wavefront slots within the pool, exactly one LaunchKernelRsp per launch after the last completion reached the CP, no unanswered launch at engine idle, all resources returned (fill probes). Exploration, not proof.",
         "Trusts akita engine/ports, simkit, the fake CU/driver protocol behaviour, the VerifRebuildDispatchers hook, the grid builder's wavefront lists (judged by C08).", "DESIGN.md §3 C09"),
 'C10': ("shadow-model monitor: seeded API histories (allocate, allocate unified, free, remap, distribute, unified devices, 1-4 processes, page sizes 2^12-2^16, default and buddy allocator) on the real driver; after every call every page of every buffer is looked up in the real page table and compared with the shadow; fill / probe-must-refuse / free-k-reallocate-k conservation episodes; command-processing cases against fake command processors",
         "Held on N histories (quick 2000 + 60 engine cases + 13 canonical; thorough 20 000): live pages found, valid, aligned, inside the memory of their recorded device, device in the requested class, physical pages pairwise distinct and never handed out while owned, pointers aligned and non-overlapping per process, freed buffers fully unmapped and exactly their pages reusable, no crash on within-capacity histories. Exploration, not proof.",
         "Trusts akita's page table Find, the verif accessors, the monitor's own capacity accounting (remapped-away pages counted as consumed: Remap/Distribute never return the old pages - observed, not judged), the drvkit fake CPs; no concurrent phase (thread-safety of the allocation API is not documented).", "DESIGN.md §3 C10"),
 'C12': ("race detector + exact logical deadlock monitor at tagged yield points + order-revealing workloads (non-commuting kernel chains per queue) + porcupine linearizability check of the bare queue, under PRNG delays and targeted holds at the driver's hand-off points; one child process per batch",
         "Held on N multi-goroutine driver scenarios (emulation and r9nano timing, 1-2 GPUs, 1-6 application goroutines, several queues, enqueue-then-drain and blocking styles, two goroutines draining one queue) and on long loops of blocking copies, under -race with delay injection: every read-back equals the commands applied in submission order, guards untouched, every drain returned (deadlock predicate: all application goroutines parked in Wait, runAsync parked in select, no engine goroutine), no race report in mgpusim code; recorded Enqueue/Peek/Dequeue/NumCommand histories of driver.CommandQueue are linearizable. One open known finding (second queue launches a cached code object before its upload ran). Exploration of schedules, not proof.",
         "Trusts the Go race detector and runtime.Stack goroutine states, the verif yield hooks (no-ops without the tag), the hand-assembled kernels (validated against the real disassembler and both execution modes), porcupine. Race reports whose both accesses are inside the akita module (lazy id generator) are listed in the evidence, not judged.", "DESIGN.md §3 C12"),
 'C13': ("differential runtime check of the real loader (all public entry points) against harness-generated ELF64 code objects whose description is the ground truth (incl. header-mimicking code, symbol reordering / removal metamorphic relations) and against all 77 shipped .hsaco judged by an independent debug/elf extractor",
         "Held on N synthetic code objects (quick 407 files / 1183 kernels, thorough 50 007) and the 131 shipped kernels: Data byte-exact, version, entry offset, segment sizes, rsrc words, register counts, enable flags equal to the file's contents modulo the loader's documented V5 normalisations; invariant under symbol order and presence of other kernels. Exploration, not proof.",
         "Trusts Go debug/elf, the harness' ELF writer (each file validated with debug/elf first), the LLVM layouts of amd_kernel_code_t / kernel_descriptor_t (cross-checked against the 73 shipped descriptors), the encoded list of deliberate normalisations.", "DESIGN.md §3 C13"),
 'C15': ("offline trace checker over recorded Top/Bottom/Control port events of the real reorder buffer between scripted requesters and a delaying / permuting / back-pressuring fake memory, with DiscardTransactions/Restart injected at random points; logical deadlock criterion at engine idle",
         "Held on N executions (quick 20 004 scenarios, thorough 600 004) of the real rob.ReorderBuffer under seeded request streams, capacities 1-128, widths 1-8, peer buffers 1-16, lower-level latency/permutation/back-pressure and 0-3 flush/restart points: responses in acceptance order, exactly one per accepted non-discarded request, requester's id and the lower level's bytes, forwarded copies unchanged, in-flight <= capacity, nothing delivered for discarded requests, traffic after restart served. Exploration, not proof.",
         "Trusts akita port hooks for event order, the fake peers (memkit) and the trace classification (accepted = retrieved outside a Discard..Restart interval); unique (PID,address) per request; control handshake as the command processor drives it.", "DESIGN.md §3 C15"),
 'C16': ("offline trace checker over recorded Top/Bottom/Translation/Control port events of the real address translator between scripted requesters, a fake translation service owning the page table (same virtual pages under several PIDs) and a fake memory, all delaying / permuting / back-pressuring, with flush/restart injected; logical stuck criterion at engine idle",
         "Held on N executions (quick 15 004 scenarios, thorough 400 004) of the real addresstranslator.Comp: every accepted non-discarded access forwarded exactly once with address = PAddr of its own (PID, virtual page) + page offset and unchanged size/data/mask, answered exactly once to its requester with the original id and the memory's data, with coalesced lookups, out-of-order translation replies meeting a full bottom port, page sizes 2^12-2^16, widths 1-32, flush/restart. Exploration, not proof.",
         "Trusts akita port hooks, the harness' fake peers and page table; unique (PID,vaddr) per request, distinct physical pages, accesses within one page, single-port mappers.", "DESIGN.md §3 C16"),
 'C17': ("reference-model monitor over recorded port trace (flat byte array replayed in observed arrival order), real component under random streams/configurations",
         "Held on N executions of the real simplebankedmemory component under seeded random request streams, timings and configurations (banks, interleave, pipeline width/depth/latency, row buffer, buffers, requester back-pressure): every request answered exactly once, every read byte equal to the flat model at its arrival point, final storage equal to the model. Exploration, not proof: the stream/configuration space is sampled.",
         "Trusts akita's port hooks for arrival order, the harness' flat model and generator; accesses stay inside one 64-byte line.", "DESIGN.md §3 C17"),
 'C18': ("end-to-end differential runs (same integer program on 1 GPU / unified 2-4 GPU device / plain 2-4 GPUs with distributed buffers, emulation and r9nano timing, one child process per run, compared bit-exactly with the single-GPU run and a host reference) + offline trace checker over the data and control ports of 2-4 real RDMA engines between fake L1 requesters, fake reordering L2 memories and a control peer driving drain/restart",
         "Held on N end-to-end placements (quick ~114 runs, thorough ~1100; grids with partial last work-groups and work-group counts just above a multiple of the CU count; buffers distributed page-wise) and M RDMA scenarios (quick 1202 / ~110 000 transactions, thorough 40 002): multi-GPU and unified results bit-identical to the single-GPU run; every remote access forwarded exactly once to the owning engine and its L2 with unchanged payload and answered exactly once to the originator with the original id and the L2's data; every drain acknowledged with an empty open-transaction set; nothing lost after restart. Exploration, not proof.",
         "Trusts akita port hooks and engine, the harness' fake L1/L2/control peers (control traffic as driver + CP produce it), the hand-assembled integer kernels and the host reference; floating-point workloads with reductions are left to C01's Verify().", "DESIGN.md §3 C18"),
 'C19': ("snapshot + reference-model monitor and port trace checker: real PageMigrationControllers with ideal or hostile memories under seeded migration sequences; real driver.Driver with a real page table between fake command processors and a fake MMU performing the migration handshake",
         "Held on N controller scenarios (destination page equals the source page at request time, every other byte of all memories unchanged, chunk pulls/writes cover the page exactly once, one completion per request after the last write, requests arriving during a migration served afterwards) and M driver handshakes (stage order, recipients, one reply per MMU request, page-table post-condition via PageTable.Find, no other mapping changed). Exploration, not proof.",
         "Trusts akita port hooks and serial engine, the fake memory / command processors / MMU (modelled on cp/ctrlMiddleware.go, driver.go, akita's mmu.go), the VerifDeviceIDByPAddr hook; the migration path is exercised through Driver.Tick without Driver.Run(); the shipped platform does not wire the controller, so there is no end-to-end run.", "DESIGN.md §3 C19"),
 'C20': ("conservation + termination monitor and parse round-trip: generated accel-sim traces (seeded + canonical) parsed by the shipped reader and compared field by field with their description; the shipped Runner executed on platforms from the public builders while port hooks, the conservation getters and the verif VerifPending accessors are evaluated when Engine.Run() returns; termination by an engine-event bound",
         "Held on N (trace, platform shape) pairs (quick 313 / ~1 M instruction lines / 116 shapes; thorough 20 012): parse(serialise(t)) = t on every exported field; warps and instructions seen equal the trace's, every kernel/block/warp delivered and reported finished exactly once, all components idle and no unfinished kernel when the engine stops, within the event bound. Exploration, not proof.",
         "Trusts the harness' trace serialiser and reference parser (cross-checked on the shipped sample), akita's engine/port hooks, the read-only VerifPending accessors, child-process batch protocol.", "DESIGN.md §3 C20"),
}
NA_REASON = {}
hooks_commits = subprocess.run(['git','-C','/repo','log','--format=%h %s','--grep=^verif hooks'],capture_output=True,text=True).stdout.strip().splitlines()
checks=[]; na=[]
for i in ids:
    w = os.path.join(ROOT,'harness','cmd','w_'+i.lower())
    if i in CHECKS and os.path.isdir(w):
        tech, text, note, ref = CHECKS[i]
        checks.append({
            "property_id": i,
            "quick_cmd": f"bin/vcheck {i} quick",
            "thorough_cmd": f"bin/vcheck {i} thorough",
            "evidence_file": f"evidence/{i}.json",
            "replay_cmd_template": f"bin/vcheck {i} quick --replay {{path}}",
            "engine": "vcheck",
            "level_claimed": {"category": "exploration", "text": text, "design_ref": ref},
            "level_note": note,
            "technique": tech,
        })
    else:
        na.append({"property_id": i, "reason": NA_REASON.get(i, "runtime monitor designed (DESIGN.md) but not built yet in this session; not claimed until its check exists and is silent on the unchanged tree")})
m = {
 "version": 1,
 "setup_cmd": "bin/setup",
 "hooks": {
   "guard": "verif",
   "enable": "go build -tags verif (bin/vbuild; harness module /verif/harness has `replace github.com/sarchlab/mgpusim/v4 => /repo`)",
   "baseline_off_cmd": "cd /repo && GOFLAGS=-mod=mod GOPROXY=off go test -json -vet=off -count=1 -timeout 25m ./...",
   "source_commits": [c.split()[0] for c in hooks_commits],
   "add_only": True,
 },
 "engines": [{"name": "vcheck", "path": "bin/vcheck", "serves_properties": [c["property_id"] for c in checks],
              "kind_free_text": "bash front end: rebuilds the Go worker harness/cmd/w_<id> against /repo's working tree with -tags verif (and -race where marked), runs it; the worker drives the real code, monitors it and writes evidence/<id>.json"}],
 "checks": checks,
 "not_applicable": na,
 "notes": "Runtime monitoring only. Known findings and fixed defects: known_findings.json. Exit codes: 0 held, 1 unlisted violation, 2 inconclusive.",
}
json.dump(m, open(os.path.join(ROOT,'MANIFEST.json'),'w'), indent=1)
print("claimed:", [c["property_id"] for c in checks])
