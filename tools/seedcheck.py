#!/usr/bin/env python3
"""seedcheck.py <ID> <seed-worktree> [name]

Confirms a seeded break produced by an independent sub-agent and files it under
/verif/seeded/<name>/:
  1. fresh scratch worktree of /repo HEAD, seed patch applied (must apply cleanly)
  2. go build ./... and the 32 pinned tests pass with the patch (tools/suite32.sh)
  3. the agent's demonstration fails with the patch and passes without it
  4. our check for <ID> (quick tier, VERIF_REPO=<scratch>) must report a VIOLATION
The scratch worktree and its build output are removed at the end.
"""
import json, os, shutil, subprocess, sys, time

ID = sys.argv[1]
seed = sys.argv[2].rstrip('/')
name = sys.argv[3] if len(sys.argv) > 3 else ID.lower()
tiers = (os.environ.get('SEED_TIERS') or 'quick').split(',')
env = dict(os.environ, GOFLAGS='-mod=mod', GOPROXY='off')
for k in ('GOSUMDB', 'GOTOOLCHAIN'):
    env.pop(k, None)

def run(cmd, cwd=None, timeout=3600, extra=None):
    e = dict(env)
    if extra:
        e.update(extra)
    p = subprocess.run(cmd, cwd=cwd, shell=isinstance(cmd, str), env=e, capture_output=True, text=True, timeout=timeout)
    return p.returncode, p.stdout + p.stderr

wt = f'/tmp/sc-{name}'
subprocess.run(['git', '-C', '/repo', 'worktree', 'remove', '--force', wt], capture_output=True)
shutil.rmtree(wt, ignore_errors=True)
rc, out = run(['git', '-C', '/repo', 'worktree', 'add', '--detach', wt, 'HEAD'])
assert rc == 0, out
res = {'property': ID, 'name': name, 'checked_at_repo_head': run(['git', '-C', '/repo', 'rev-parse', '--short', 'HEAD'])[1].strip()}
try:
    patch = os.path.join(seed, 'SEED', 'patch.diff')
    meta = {}
    mp = os.path.join(seed, 'SEED', 'meta.json')
    if os.path.exists(mp):
        meta = json.load(open(mp))
    # demo files
    # demo files: every untracked file of the seed worktree outside SEED/ (the
    # demonstration may have to live under amd/... to import internal packages)
    _, lst = run(['git', '-C', seed, 'ls-files', '--others', '--exclude-standard'])
    demo_files = [f for f in lst.splitlines() if f and not f.startswith('SEED/')]
    for f in demo_files:
        os.makedirs(os.path.dirname(os.path.join(wt, f)) or wt, exist_ok=True)
        shutil.copy(os.path.join(seed, f), os.path.join(wt, f))
    res['demo_files'] = demo_files
    os.makedirs(os.path.join(wt, 'SEED'), exist_ok=True)
    for f in os.listdir(os.path.join(seed, 'SEED')):
        shutil.copy(os.path.join(seed, 'SEED', f), os.path.join(wt, 'SEED', f))
    demo_cmd = 'bash SEED/run_demo.sh'
    # without the patch
    rc0, out0 = run(demo_cmd, cwd=wt, timeout=1800)
    res['demo_without_patch_exit'] = rc0
    rc, out = run(['git', 'apply', '--whitespace=nowarn', patch], cwd=wt)
    res['patch_applies'] = (rc == 0)
    if rc != 0:
        res['apply_error'] = out[-2000:]
        raise SystemExit
    rc1, out1 = run(demo_cmd, cwd=wt, timeout=1800)
    res['demo_with_patch_exit'] = rc1
    res['demo_with_patch_tail'] = out1[-1200:]
    rc, out = run(['/verif/tools/suite32.sh', wt], timeout=3600)
    res['suite32'] = out.strip().splitlines()[-1] if out.strip() else ''
    res['suite32_ok'] = (rc == 0)
    # our check
    res['checks'] = {}
    for tier in tiers:
        t0 = time.time()
        rc, out = run(['/verif/bin/vcheck', ID, tier], cwd='/verif', timeout=int(os.environ.get('SEED_VCHECK_TIMEOUT','1500')), extra={'VERIF_REPO': wt})
        viol = [l for l in out.splitlines() if l.startswith('VIOLATION')]
        keys = [l.strip() for l in out.splitlines() if 'key=' in l][:12]
        res['checks'][tier] = {'exit': rc, 'violation_lines': len(viol), 'keys': keys, 'wall_s': round(time.time() - t0, 1)}
        if rc == 1:
            break
    res['caught'] = any(c['exit'] == 1 for c in res['checks'].values())
    res['confirmed_seed'] = bool(res['patch_applies'] and res['suite32_ok'] and rc0 == 0 and rc1 != 0)
finally:
    dst = f'/verif/seeded/{name}'
    shutil.rmtree(dst, ignore_errors=True)
    os.makedirs(dst, exist_ok=True)
    if os.path.exists(os.path.join(seed, 'SEED', 'patch.diff')):
        shutil.copy(os.path.join(seed, 'SEED', 'patch.diff'), dst)
    if os.path.exists(os.path.join(seed, 'SEED', 'run_demo.sh')):
        shutil.copy(os.path.join(seed, 'SEED', 'run_demo.sh'), dst)
    for f in res.get('demo_files', []):
        os.makedirs(os.path.dirname(os.path.join(dst, f)) or dst, exist_ok=True)
        shutil.copy(os.path.join(seed, f), os.path.join(dst, f))
    m = {'breaks_property': ID,
         'summary': meta.get('summary'), 'needs_to_manifest': meta.get('needs_to_manifest'),
         'why_tests_pass': meta.get('why_tests_pass'), 'files_changed': meta.get('files_changed'),
         'what_was_run': res}
    json.dump(m, open(os.path.join(dst, 'meta.json'), 'w'), indent=1)
    subprocess.run(['git', '-C', '/repo', 'worktree', 'remove', '--force', wt], capture_output=True)
    shutil.rmtree(wt, ignore_errors=True)
    tag = subprocess.run(f'echo -n {wt} | md5sum | cut -c1-8', shell=True, capture_output=True, text=True).stdout.strip()
    shutil.rmtree(f'/verif/.build/alt-{tag}', ignore_errors=True)
    shutil.rmtree(f'/verif/.alt/{tag}', ignore_errors=True)
    print(json.dumps({k: res.get(k) for k in ('property', 'patch_applies', 'suite32', 'demo_without_patch_exit', 'demo_with_patch_exit', 'confirmed_seed', 'caught', 'checks')}, indent=1))
