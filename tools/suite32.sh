#!/bin/bash
# suite32.sh <checkout dir> — builds everything and runs the 32 pinned tests
# (the packages that contain them) with the verif tag OFF. Exit 0 iff build ok
# and all 32 pass.
d="${1:-/repo}"
cd "$d" || exit 2
export GOFLAGS=-mod=mod GOPROXY=off
go build ./... || { echo "BUILD FAILED"; exit 1; }
out=$(go test -json -vet=off -count=1 ./amd/benchmarks/dnn/gputensor ./amd/benchmarks/dnn/layers ./amd/benchmarks/dnn/tensor ./amd/bitops ./amd/emu/cdna3 ./amd/insts ./amd/kernels ./amd/timing/cp/internal/resource ./nvidia/benchmark ./nvidia/platform ./nvidia/tracereader 2>&1)
echo "$out" | python3 -c "
import sys,json
res={}
for l in sys.stdin:
    try: e=json.loads(l)
    except Exception: continue
    if e.get('Test') and '/' not in e['Test'] and e.get('Action') in('pass','fail'):
        res[e['Package']+'::'+e['Test']]=e['Action']
b=json.load(open('/root/.vp/BASELINE.json'))['stable_pass']
bad=[t for t in b if res.get(t)!='pass']
print('suite32: pass',len(b)-len(bad),'of',len(b))
for t in bad: print('  NOT PASSING:',t)
sys.exit(1 if bad else 0)
"
