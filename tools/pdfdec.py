import re, sys, zlib, hashlib, struct

# ---- minimal AES-128 decrypt (pure python) ----
sbox=[0]*256
def _init():
    p=q=1
    while True:
        p = p ^ ((p<<1)&0xff) ^ (0x1b if p&0x80 else 0)
        q ^= q<<1; q ^= q<<2; q ^= q<<4; q&=0xff
        if q&0x80: q^=0x09
        x = q ^ ((q<<1|q>>7)&0xff) ^ ((q<<2|q>>6)&0xff) ^ ((q<<3|q>>5)&0xff) ^ ((q<<4|q>>4)&0xff)
        sbox[p]=(x^0x63)&0xff
        if p==1: break
    sbox[0]=0x63
_init()
inv=[0]*256
for i,v in enumerate(sbox): inv[v]=i
def xt(a): return ((a<<1)^0x1b)&0xff if a&0x80 else a<<1
def mul(a,b):
    r=0
    while b:
        if b&1: r^=a
        a=xt(a); b>>=1
    return r
def expand(key):
    w=[list(key[i:i+4]) for i in range(0,16,4)]
    rc=1
    for i in range(4,44):
        t=list(w[i-1])
        if i%4==0:
            t=t[1:]+t[:1]; t=[sbox[x] for x in t]; t[0]^=rc; rc=xt(rc)
        w.append([w[i-4][j]^t[j] for j in range(4)])
    return [sum(w[4*r:4*r+4],[]) for r in range(11)]
M9=[mul(i,9) for i in range(256)];M11=[mul(i,11) for i in range(256)];M13=[mul(i,13) for i in range(256)];M14=[mul(i,14) for i in range(256)]
def dec_block(rk,b):
    s=[b[i]^rk[10][i] for i in range(16)]
    for r in range(9,-1,-1):
        # inv shift rows
        t=[0]*16
        for c in range(4):
            for rr in range(4):
                t[4*((c+rr)%4)+rr]=s[4*c+rr]
        s=[inv[x] for x in t]
        s=[s[i]^rk[r][i] for i in range(16)]
        if r>0:
            t=[0]*16
            for c in range(4):
                a=s[4*c:4*c+4]
                t[4*c+0]=M14[a[0]]^M11[a[1]]^M13[a[2]]^M9[a[3]]
                t[4*c+1]=M9[a[0]]^M14[a[1]]^M11[a[2]]^M13[a[3]]
                t[4*c+2]=M13[a[0]]^M9[a[1]]^M14[a[2]]^M11[a[3]]
                t[4*c+3]=M11[a[0]]^M13[a[1]]^M9[a[2]]^M14[a[3]]
            s=t
    return bytes(s)
def aes_cbc_dec(key,data):
    if len(data)<32: return b''
    rk=expand(key)
    iv=data[:16]; out=bytearray()
    prev=iv
    for i in range(16,len(data)-len(data)%16,16):
        blk=data[i:i+16]
        d=dec_block(rk,blk)
        out+=bytes(x^y for x,y in zip(d,prev))
        prev=blk
    if out:
        pad=out[-1]
        if 1<=pad<=16: out=out[:-pad]
    return bytes(out)
def rc4(key,data):
    S=list(range(256)); j=0
    for i in range(256):
        j=(j+S[i]+key[i%len(key)])&255; S[i],S[j]=S[j],S[i]
    i=j=0; out=bytearray()
    for c in data:
        i=(i+1)&255; j=(j+S[i])&255; S[i],S[j]=S[j],S[i]; out.append(c^S[(S[i]+S[j])&255])
    return bytes(out)

PAD=bytes([0x28,0xBF,0x4E,0x5E,0x4E,0x75,0x8A,0x41,0x64,0x00,0x4E,0x56,0xFF,0xFA,0x01,0x08,0x2E,0x2E,0x00,0xB6,0xD0,0x68,0x3E,0x80,0x2F,0x0C,0xA9,0xFE,0x64,0x53,0x69,0x7A])
def pdfstr(raw):
    # parse literal string body with escapes
    out=bytearray(); i=0
    while i<len(raw):
        c=raw[i]
        if c==0x5c:
            i+=1; n=raw[i]
            m={ord('n'):10,ord('r'):13,ord('t'):9,ord('b'):8,ord('f'):12,ord('('):40,ord(')'):41,0x5c:0x5c}
            if n in m: out.append(m[n]); i+=1
            elif 48<=n<=55:
                j=i; v=0
                while j<len(raw) and j<i+3 and 48<=raw[j]<=55: v=v*8+raw[j]-48; j+=1
                out.append(v&255); i=j
            elif n in (10,13):
                i+=1
            else: out.append(n); i+=1
        else: out.append(c); i+=1
    return bytes(out)

data=open(sys.argv[1],'rb').read()
ei=data.find(b'/Filter/Standard'); enc=data[ei-200:ei+400]
def litstr(buf,tag):
    i=buf.find(tag)+len(tag); j=i; depth=1
    while True:
        c=buf[j]
        if c==0x5c: j+=2; continue
        if c==0x28: depth+=1
        if c==0x29:
            depth-=1
            if depth==0: break
        j+=1
    return buf[i:j]
class M:
    def __init__(s,a): s.a=a
    def group(s,i): return s.a[i-1]
m=M([litstr(enc,b'/O('), re.search(rb'/P (-?\d+)',enc).group(1), litstr(enc,b'/U(')])
O=pdfstr(m.group(1)); P=int(m.group(2)); U=pdfstr(m.group(3))
ID=bytes.fromhex(re.search(rb'/ID\[<([0-9A-Fa-f]+)>', data).group(1).decode())
print(len(O),len(U),P,ID.hex(), file=sys.stderr)
h=hashlib.md5(PAD+O[:32]+struct.pack('<i',P)+ID).digest()
for _ in range(50): h=hashlib.md5(h[:16]).digest()
key=h[:16]
# verify U (R>=3)
t=hashlib.md5(PAD+ID).digest(); t=rc4(key,t)
for i in range(1,20): t=rc4(bytes(k^i for k in key),t)
print('key ok' if t==U[:16] else 'KEY MISMATCH', file=sys.stderr)

def objkey(n,g): return hashlib.md5(key+struct.pack('<I',n)[:3]+struct.pack('<H',g)+b'sAlT').digest()[:16]
pages=[]
cnt=0
for m in re.finditer(rb'(\d+) (\d+) obj\r?\n?<<(.*?)>>\s*stream\r?\n', data, re.S):
    n=int(m.group(1)); g=int(m.group(2)); d=m.group(3)
    if b'/XRef' in d: continue
    lm=re.search(rb'/Length (\d+)', d)
    if not lm: continue
    L=int(lm.group(1)); raw=data[m.end():m.end()+L]
    dec=aes_cbc_dec(objkey(n,g),raw)
    if b'/FlateDecode' in d:
        try: dec=zlib.decompressobj().decompress(dec)
        except Exception as e: continue
    cnt+=1
    if b'/ObjStm' in d: continue
    if b'BT' in dec and (b'TJ' in dec or b'Tj' in dec):
        pages.append((m.start(),dec))
print('streams',cnt,'content',len(pages), file=sys.stderr)
def unesc(b): return pdfstr(b)
out=[]
for _,s in pages:
    parts=[]
    for mm in re.finditer(rb'\[((?:[^\]\\]|\\.)*)\]\s*TJ|\(((?:[^)\\]|\\.)*)\)\s*Tj|(T\*|[-\d.]+\s+[-\d.]+\s+T[dD]|ET)', s, re.S):
        if mm.group(1) is not None:
            seg=b''
            for k in re.finditer(rb'\(((?:[^)\\]|\\.)*)\)|(-?\d+\.?\d*)', mm.group(1), re.S):
                if k.group(1) is not None: seg+=unesc(k.group(1))
                else:
                    try:
                        if float(k.group(2))<-200: seg+=b' '
                    except: pass
            parts.append(seg)
        elif mm.group(2) is not None: parts.append(unesc(mm.group(2)))
        else: parts.append(b'\n')
    out.append(b''.join(parts))
sys.stdout.buffer.write(b'\n=====PAGE\n'.join(out))
